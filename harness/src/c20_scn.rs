//! C20 scenario engine, shared by `hv` (threaded runtime) and `hvt` (tokio runtime, crate `harness-tokio`,
//! which includes this file by path). Everything that touches `humphrey::App` lives in the two `c20.rs` /
//! `c20t.rs` files; this file places the client connections, sends the signal, measures and records.
//!
//! Scenario text (one word): `rt|ip|threads|timeout_ms|deny|mode|k|kinds|seed`
//!   rt       `t` threaded, `k` tokio
//!   ip       bind address without port (`127.0.0.1`, `0.0.0.0`, `[::]`, `[::1]`)
//!   mode     `B` signal before the first connection, `M` after the first k connections (the rest connect
//!            afterwards), `C` concurrently with the connects (a second thread, after a seed-chosen delay),
//!            `A` after all connections have been placed,
//!            `Q` LARGE states: the first k connections (the ones that are to hold the workers) are placed one
//!            by one as in `A`; the others are connected in a burst that stays at most `WINDOW` connections
//!            ahead of the accept loop (so the listen backlog is never the limit) and are only accepted and
//!            queued (or idle), no per-connection wait for their state; the signal is sent when the accept loop
//!            has dealt with all of them. If the accept loop does not move for `STALL` the remaining clients
//!            are not connected (reported like refused ones) and the signal is sent at once.
//!   kinds    one letter per client: `J` just accepted (connected, nothing sent), `K` idle keep-alive (one
//!            request answered, connection open), `H` half-sent request, `S`/`L` handler running short/long,
//!            `W` response being written (2 MiB body, client not reading), `O` WebSocket open;
//!            `a`..`o` PIPELINED keep-alive connections: 2, 3, 4, 5 or 64 complete requests written in one go
//!            before anything is read (letter = `a` + 5*first + index into `PIPE_COUNTS`; first request
//!            `/short` (first = 0), `/long` (1) or `/gate` (2: the handler waits until the harness opens the
//!            gate, which it does after `run` has returned); the others `/n/<i>` (answered at once with the URI
//!            as body) or `/ns/<i>` (the same after `SHORT_MS`), seed-chosen; all but the last carry
//!            `Connection: Keep-Alive`, the last one by the seed; one seed-chosen follower may carry a padding
//!            header of 100 / 1 000 / 4 096 / 8 192 / 9 000 bytes, so that the pipeline does or does not fit
//!            the server's 8 KiB read buffer). All n responses must arrive complete and in order (`C`).
use std::io::{Read, Write};
use std::net::{SocketAddr, TcpListener, TcpStream};
use std::sync::atomic::{AtomicBool, AtomicUsize, Ordering};
use std::sync::mpsc::{channel, Receiver, Sender};
use std::sync::Mutex;
use std::time::{Duration, Instant};

pub const WEDGE: Duration = Duration::from_millis(3000);
/// mode `Q`: how far the connects may run ahead of the accept loop (well below the listen backlog of 128)
pub const WINDOW: usize = 48;
/// mode `Q`: the accept loop has not dealt with a single connection for this long although connections are waiting
pub const STALL: Duration = Duration::from_millis(2500);
pub const SHORT_MS: u64 = 30;
pub const LONG_MS: u64 = 350;
pub const BIG: usize = 2 << 20;

pub static LOG: Mutex<Vec<String>> = Mutex::new(Vec::new());
/// connections the accept loop has finished with (`Executed` or `Condition(false)`)
pub static HANDLED: AtomicUsize = AtomicUsize::new(0);
pub static WORKER_EXITS: AtomicUsize = AtomicUsize::new(0);
pub static ACCEPT_ORD: AtomicUsize = AtomicUsize::new(0);
pub static DENY: AtomicBool = AtomicBool::new(false);
/// the `/gate` handlers return once this is set (the harness sets it after `run` has returned)
pub static GATE_OPEN: AtomicBool = AtomicBool::new(false);
/// a `/gate` handler gives up waiting after this long (nothing in a scenario lasts that long)
pub const GATE_MAX: Duration = Duration::from_millis(6000);
/// a pipelined connection counts as "received before the signal" only if its last byte was written at least
/// this long before the signal was sent (loop-back delivery is immediate; this is slack on top of it)
pub const GRACE: Duration = Duration::from_millis(10);
/// requests on a pipelined connection, by index (see the `kinds` letters `a`..`o`)
pub const PIPE_COUNTS: [usize; 5] = [2, 3, 4, 5, 64];
pub const PIPE_FIRST: [&str; 3] = ["short", "long", "gate"];

/// `Some((first, n))` for the pipelined kinds: first handler 0 short / 1 long / 2 gated, `n` requests.
pub fn pipe_of(kind: char) -> Option<(usize, usize)> {
    if ('a'..='o').contains(&kind) {
        let x = kind as usize - 'a' as usize;
        Some((x / 5, PIPE_COUNTS[x % 5]))
    } else {
        None
    }
}

pub fn pipe_kind(first: usize, idx: usize) -> char {
    (b'a' + (5 * (first % 3) + idx % 5) as u8) as char
}

pub fn gate_open() -> bool {
    GATE_OPEN.load(Ordering::SeqCst)
}
pub static PROBE_PORT: Mutex<Option<SocketAddr>> = Mutex::new(None);

/// when `run` came back (set by the thread that called it, before it reports on the channel)
pub static DONE_AT: Mutex<Option<Instant>> = Mutex::new(None);

pub fn mark_done() {
    *DONE_AT.lock().unwrap_or_else(|e| e.into_inner()) = Some(Instant::now());
}

pub fn record(t: String) {
    LOG.lock().unwrap_or_else(|e| e.into_inner()).push(t);
}

/// The connection condition of the scenarios with `deny`: every fourth accepted connection is refused.
pub fn deny_now() -> bool {
    let k = ACCEPT_ORD.fetch_add(1, Ordering::SeqCst);
    DENY.load(Ordering::SeqCst) && k % 4 == 3
}

/// Called by the sinks when the pool's `Drop` begins: is the port still open?
pub fn probe_listener() {
    let a = *PROBE_PORT.lock().unwrap_or_else(|e| e.into_inner());
    if let Some(a) = a {
        match TcpStream::connect_timeout(&a, Duration::from_millis(300)) {
            Ok(_) => record("+Lo".into()),
            Err(_) => record("+Lc".into()),
        }
    }
}

#[derive(Clone, Debug)]
pub struct Scn {
    pub rt: char,
    pub ip: String,
    pub threads: usize,
    pub timeout_ms: u64,
    pub deny: bool,
    pub mode: char,
    pub k: usize,
    pub kinds: Vec<char>,
    pub seed: u64,
}

impl Scn {
    pub fn parse(s: &str) -> Option<Scn> {
        let f: Vec<&str> = s.split('|').collect();
        if f.len() != 9 {
            return None;
        }
        Some(Scn {
            rt: f[0].chars().next()?,
            ip: f[1].to_string(),
            threads: f[2].parse().ok()?,
            timeout_ms: f[3].parse().ok()?,
            deny: f[4] == "1",
            mode: f[5].chars().next()?,
            k: f[6].parse().ok()?,
            kinds: f[7].chars().filter(|c| *c != '-').collect(),
            seed: f[8].parse().ok()?,
        })
    }
    pub fn text(&self) -> String {
        let kinds: String = if self.kinds.is_empty() { "-".into() } else { self.kinds.iter().collect() };
        format!(
            "{}|{}|{}|{}|{}|{}|{}|{}|{}",
            self.rt, self.ip, self.threads, self.timeout_ms, if self.deny { 1 } else { 0 }, self.mode, self.k, kinds, self.seed
        )
    }
}

pub struct ScnResult {
    pub scn: String,
    /// `id=port` of every client whose connect succeeded
    pub ports: String,
    pub refused: String,
    /// in-flight clients whose request was complete and handed to the pool before the signal was sent
    pub must: String,
    pub log: String,
    pub summary: String,
    pub ret_ms: u128,
    pub clean: bool,
}

/// What the runtime-specific part provides: start `App::run(addr)` on its own thread; `done` is signalled when
/// `run` has returned; the returned closure sends the shutdown signal.
pub type Launch = fn(&Scn, String, Sender<()>) -> Box<dyn FnOnce() + Send>;

fn free_port(ip: &str) -> u16 {
    let l = TcpListener::bind(format!("{}:0", ip)).expect("bind port 0");
    l.local_addr().unwrap().port()
}

fn listening(port: u16) -> bool {
    let needle = format!(":{:04X} ", port);
    for f in ["/proc/net/tcp", "/proc/net/tcp6"] {
        if let Ok(t) = std::fs::read_to_string(f) {
            for line in t.lines().skip(1) {
                let mut it = line.split_whitespace();
                let (_, local, _, st) = (it.next(), it.next().unwrap_or(""), it.next(), it.next().unwrap_or(""));
                if st == "0A" && format!("{} ", local).ends_with(&needle) {
                    return true;
                }
            }
        }
    }
    false
}

fn loopback_of(ip: &str) -> &'static str {
    if ip.starts_with('[') { "[::1]" } else { "127.0.0.1" }
}

struct Client {
    kind: char,
    stream: Option<TcpStream>,
    got: Vec<u8>,
    placed_before_signal: bool,
    denied_by_plan: bool,
    /// position among the successful connects (= position in the accept loop's order when nothing connects concurrently)
    ord: Option<usize>,
    /// bodies of the responses this client is owed, in order (one for `S`/`L`/`W`/`K`, n for a pipelined one)
    expect: Vec<Vec<u8>>,
    /// when the last byte of what the client sends had been written (and the write had returned)
    written_at: Option<Instant>,
    /// when the kernel was seen to hold no unsent or unacknowledged byte of it any more (`settle`)
    acked_at: Option<Instant>,
    /// what the handlers of its requests take when nothing else is in their way
    nominal_ms: u64,
}

/// Bytes the kernel still holds for the peer: not yet sent, or sent and not yet acknowledged (`SIOCOUTQ`).
/// `None`: the question cannot be asked here.
#[cfg(target_os = "linux")]
fn unacked(s: &TcpStream) -> Option<usize> {
    use std::os::fd::AsRawFd;
    use std::os::raw::{c_int, c_ulong};
    extern "C" {
        fn ioctl(fd: c_int, request: c_ulong, ...) -> c_int;
    }
    const SIOCOUTQ: c_ulong = 0x5411;
    let mut n: c_int = 0;
    // SAFETY: SIOCOUTQ writes one int through the pointer; the descriptor is open for the duration of the call
    let r = unsafe { ioctl(s.as_raw_fd(), SIOCOUTQ, &mut n as *mut c_int) };
    if r == 0 && n >= 0 { Some(n as usize) } else { None }
}

#[cfg(not(target_os = "linux"))]
fn unacked(_: &TcpStream) -> Option<usize> {
    None
}

/// Before the signal is sent: every pipelined client placed so far has all its bytes acknowledged by the
/// server's kernel (they are in the connection's receive queue or already read), and `GRACE` has passed since.
fn settle(clients: &mut Vec<Client>) {
    let mut last: Option<Instant> = None;
    for c in clients.iter_mut().filter(|c| pipe_of(c.kind).is_some()) {
        if c.acked_at.is_none() && c.written_at.is_some() {
            if let Some(s) = c.stream.as_ref() {
                let t0 = Instant::now();
                loop {
                    match unacked(s) {
                        Some(0) => {
                            c.acked_at = Some(Instant::now());
                            break;
                        }
                        // cannot be asked: the write has returned, loop-back delivery is immediate
                        None => {
                            c.acked_at = c.written_at;
                            break;
                        }
                        Some(_) if t0.elapsed() > Duration::from_millis(500) => break,
                        Some(_) => std::thread::sleep(Duration::from_micros(200)),
                    }
                }
            }
        }
        last = last.max(c.acked_at);
    }
    if let Some(w) = last {
        let due = w + GRACE + Duration::from_millis(1);
        let now = Instant::now();
        if due > now {
            std::thread::sleep(due - now);
        }
    }
}

/// What a pipelined client writes (all of it at once) and the bodies it is owed.
fn pipeline_for(first: usize, n: usize, seed: u64, id: usize) -> (Vec<u8>, Vec<Vec<u8>>, u64) {
    let mut rng = crate::common::Rng::new(seed ^ 0x9199E ^ ((id as u64) << 20));
    let mut bytes = Vec::new();
    let mut expect = Vec::new();
    let name = PIPE_FIRST[first % 3];
    bytes.extend_from_slice(format!("GET /{} HTTP/1.1\r\nHost: x\r\nConnection: Keep-Alive\r\n\r\n", name).as_bytes());
    expect.push(name.as_bytes().to_vec());
    let mut nominal = [SHORT_MS, LONG_MS, 0][first % 3];
    let padded = if rng.chance(1, 2) { 1 + rng.below(n as u64 - 1) as usize } else { 0 };
    let pad = *rng.pick(&[100usize, 1000, 4096, 8192, 9000]);
    let last_keep_alive = rng.chance(1, 2);
    // (a long pipeline gets few slow followers: the deadline is for the connection, not per request)
    let slow_one_in = if n > 8 { 16 } else { 4 };
    for i in 1..n {
        let uri = if rng.chance(1, slow_one_in) {
            nominal += SHORT_MS;
            format!("/ns/{}", i)
        } else {
            format!("/n/{}", i)
        };
        let mut r = format!("GET {} HTTP/1.1\r\nHost: x\r\n", uri);
        if i == padded {
            r += "X-Pad: ";
            r.extend(std::iter::repeat('p').take(pad));
            r += "\r\n";
        }
        if i + 1 < n || last_keep_alive {
            r += "Connection: Keep-Alive\r\n";
        }
        r += "\r\n";
        bytes.extend_from_slice(r.as_bytes());
        expect.push(uri.into_bytes());
    }
    (bytes, expect, nominal)
}

impl Client {
    fn new(kind: char) -> Client {
        Client { kind, stream: None, got: Vec::new(), placed_before_signal: false, denied_by_plan: false, ord: None, expect: Vec::new(), written_at: None, acked_at: None, nominal_ms: 0 }
    }

    /// How many responses the client is owed.
    fn owed(&self) -> usize {
        self.expect.len().max(1)
    }

    /// What an in-flight client got: `C` every response it is owed, complete (and, on a pipelined connection,
    /// in the order of the requests and nothing after them); `P` bytes that are not that: a truncated response, a
    /// body that belongs to another request, bytes after the last response; `M` (pipelined only) at least one but
    /// not all responses, each complete, then the connection was closed; `Z` closed without a byte; `T` open, and
    /// not everything there at the deadline.
    fn code(&self) -> char {
        if self.expect.is_empty() {
            return if complete_response(&self.got).is_some() {
                'C'
            } else if !self.got.is_empty() {
                'P'
            } else if self.stream.is_none() {
                'Z'
            } else {
                'T'
            };
        }
        let rs = responses(&self.got);
        let n = self.expect.len();
        let right = rs.iter().zip(self.expect.iter()).all(|((b, _), e)| *b == &e[..]);
        // what follows the last owed response (or the last complete one, when some are missing)
        let rest = &self.got[rs.iter().take(n).last().map_or(0, |(_, end)| *end)..];
        // a connection that stays idle after a keep-alive pipeline gets the connection timeout's 408: not an answer
        // to any of the requests, and nothing else may follow them
        let idle_408: &[u8] = b"HTTP/1.1 408";
        let m = rest.len().min(idle_408.len());
        let rest_ok = rest.is_empty() || (rs.len() >= n && rest[..m] == idle_408[..m]);
        if !right || !rest_ok {
            'P'
        } else if rs.len() >= n {
            'C'
        } else if self.stream.is_some() {
            'T'
        } else if rs.is_empty() {
            'Z'
        } else {
            'M'
        }
    }
}

fn request_for(kind: char) -> &'static [u8] {
    match kind {
        'K' => b"GET /ok HTTP/1.1\r\nHost: x\r\nConnection: Keep-Alive\r\n\r\n",
        'H' => b"GET /ok HTTP/1.1\r\nHost: x\r\nConn",
        'S' => b"GET /short HTTP/1.1\r\nHost: x\r\n\r\n",
        'L' => b"GET /long HTTP/1.1\r\nHost: x\r\n\r\n",
        'W' => b"GET /big HTTP/1.1\r\nHost: x\r\n\r\n",
        'O' => b"GET /ws HTTP/1.1\r\nHost: x\r\nUpgrade: websocket\r\nConnection: Upgrade\r\nSec-WebSocket-Key: dGhlIHNhbXBsZSBub25jZQ==\r\nSec-WebSocket-Version: 13\r\n\r\n",
        _ => b"",
    }
}

pub fn in_flight(kind: char) -> bool {
    matches!(kind, 'S' | 'L' | 'W') || pipe_of(kind).is_some()
}

/// The complete responses at the start of `b`: their bodies, and where each ends. (Humphrey ends every
/// serialised response with a CRLF after the `Content-Length` bytes of the body: that CRLF, or the part of it
/// that has arrived, belongs to the response in front of it.)
pub fn responses(b: &[u8]) -> Vec<(&[u8], usize)> {
    let mut at = 0;
    let mut v = Vec::new();
    while let Some(n) = complete_response(&b[at..]) {
        let head = b[at..at + n].windows(4).position(|w| w == b"\r\n\r\n").unwrap_or(0) + 4;
        let body = &b[at + head..at + n];
        at += n;
        if b[at..].starts_with(b"\r\n") {
            at += 2;
        } else if &b[at..] == b"\r" {
            at += 1;
        }
        v.push((body, at));
    }
    v
}

/// `Some(n)`: the bytes form a complete response (status line, headers, `Content-Length` bytes of body) of `n`
/// bytes; `None`: not (yet) complete.
pub fn complete_response(b: &[u8]) -> Option<usize> {
    let p = b.windows(4).position(|w| w == b"\r\n\r\n")?;
    let head = String::from_utf8_lossy(&b[..p]).to_string();
    if !head.starts_with("HTTP/1.1 ") {
        return None;
    }
    let mut cl = 0usize;
    for line in head.split("\r\n").skip(1) {
        let mut it = line.splitn(2, ':');
        if let (Some(n), Some(v)) = (it.next(), it.next()) {
            if n.eq_ignore_ascii_case("content-length") {
                cl = v.trim().parse().ok()?;
            }
        }
    }
    if b.len() >= p + 4 + cl { Some(p + 4 + cl) } else { None }
}

/// Read until `want` complete responses are there, EOF / reset, or the deadline.
fn read_response(c: &mut Client, want: usize, deadline: Instant) {
    let s = match c.stream.as_mut() {
        Some(s) => s,
        None => return,
    };
    let mut buf = vec![0u8; 1 << 16];
    loop {
        if (want <= 1 && complete_response(&c.got).is_some()) || (want > 1 && responses(&c.got).len() >= want) {
            return;
        }
        let now = Instant::now();
        if now >= deadline {
            return;
        }
        let _ = s.set_read_timeout(Some((deadline - now).max(Duration::from_millis(1))));
        match s.read(&mut buf) {
            Ok(0) => {
                c.stream = None; // EOF
                return;
            }
            Ok(n) => c.got.extend_from_slice(&buf[..n]),
            Err(e) if e.kind() == std::io::ErrorKind::WouldBlock || e.kind() == std::io::ErrorKind::TimedOut => return,
            Err(_) => {
                c.stream = None; // reset
                return;
            }
        }
    }
}

fn wait_handled(n: usize, max: Duration) {
    let t0 = Instant::now();
    while HANDLED.load(Ordering::SeqCst) < n && t0.elapsed() < max {
        std::thread::sleep(Duration::from_micros(200));
    }
}

/// Connect client `id` and bring it into its state. `wait`: the signal has not been sent yet and nothing runs
/// concurrently, so wait until the accept loop has dealt with the connection (and, for `K` / `O`, until the
/// first response has arrived).
fn place(id: usize, kind: char, seed: u64, target: &str, wait: bool, ok_so_far: &mut usize, ports: &mut Vec<String>, refused: &mut Vec<String>) -> Client {
    record(format!("+a{}", id));
    let mut c = Client::new(kind);
    let addr: SocketAddr = target.parse().expect("target addr");
    match TcpStream::connect_timeout(&addr, Duration::from_millis(400)) {
        Err(_) => {
            refused.push(id.to_string());
            return c;
        }
        Ok(mut s) => {
            ports.push(format!("{}={}", id, s.local_addr().map(|a| a.port()).unwrap_or(0)));
            let ord = *ok_so_far;
            *ok_so_far += 1;
            c.ord = Some(ord);
            let written = match pipe_of(kind) {
                Some((first, n)) => {
                    // the whole pipeline in one write: every request is on its way before anything is read
                    let (bytes, expect, nominal) = pipeline_for(first, n, seed, id);
                    c.expect = expect;
                    c.nominal_ms = nominal;
                    s.write_all(&bytes).is_ok()
                }
                None => {
                    c.nominal_ms = match kind {
                        'S' => SHORT_MS,
                        'L' => LONG_MS,
                        _ => 0,
                    };
                    s.write_all(request_for(kind)).is_ok()
                }
            };
            let _ = s.flush();
            if written {
                c.written_at = Some(Instant::now());
            }
            c.stream = Some(s);
            if wait {
                wait_handled(ord + 1, Duration::from_millis(1500));
                c.denied_by_plan = DENY.load(Ordering::SeqCst) && ord % 4 == 3;
                c.placed_before_signal = HANDLED.load(Ordering::SeqCst) >= ord + 1;
                if matches!(kind, 'K') && !c.denied_by_plan {
                    // the pool may be saturated: then the answer does not come; that is a legal state too
                    read_response(&mut c, 1, Instant::now() + Duration::from_millis(250));
                }
                if matches!(kind, 'O') && !c.denied_by_plan {
                    let dl = Instant::now() + Duration::from_millis(250);
                    while !c.got.windows(4).any(|w| w == b"\r\n\r\n") && Instant::now() < dl && c.stream.is_some() {
                        let s = c.stream.as_mut().unwrap();
                        let _ = s.set_read_timeout(Some(Duration::from_millis(50)));
                        let mut b = [0u8; 1024];
                        match s.read(&mut b) {
                            Ok(0) => c.stream = None,
                            Ok(n) => c.got.extend_from_slice(&b[..n]),
                            Err(_) => {}
                        }
                    }
                }
            }
        }
    }
    c
}

/// Wait until the accept loop has dealt with at least `n` connections. `false`: it has not moved for `STALL`.
fn wait_progress(n: usize) -> bool {
    let mut last = HANDLED.load(Ordering::SeqCst);
    let mut since = Instant::now();
    loop {
        let h = HANDLED.load(Ordering::SeqCst);
        if h >= n {
            return true;
        }
        if h != last {
            last = h;
            since = Instant::now();
        } else if since.elapsed() >= STALL {
            return false;
        }
        std::thread::sleep(Duration::from_micros(100));
    }
}

/// Mode `Q`, clients `from..`: connect (and send what the state needs) without waiting for the state, never more
/// than `WINDOW` connections ahead of the accept loop; then wait until the loop has dealt with all of them.
fn place_bulk(scn: &Scn, from: usize, target: &str, clients: &mut Vec<Client>, ok_so_far: &mut usize, ports: &mut Vec<String>, refused: &mut Vec<String>) {
    let mut stalled = false;
    for i in from..scn.kinds.len() {
        if !stalled && *ok_so_far > WINDOW {
            stalled = !wait_progress(*ok_so_far - WINDOW);
        }
        if stalled {
            // never attempted: no `+a` token, listed with the refused ones
            refused.push(i.to_string());
            clients.push(Client::new(scn.kinds[i]));
        } else {
            clients.push(place(i, scn.kinds[i], scn.seed, target, false, ok_so_far, ports, refused));
        }
    }
    if !stalled {
        wait_progress(*ok_so_far);
    }
    let handled = HANDLED.load(Ordering::SeqCst);
    for c in clients.iter_mut().skip(from) {
        if let Some(ord) = c.ord {
            c.denied_by_plan = DENY.load(Ordering::SeqCst) && ord % 4 == 3;
            c.placed_before_signal = handled >= ord + 1;
        }
    }
}

pub fn reset_globals(scn: &Scn) {
    LOG.lock().unwrap_or_else(|e| e.into_inner()).clear();
    HANDLED.store(0, Ordering::SeqCst);
    WORKER_EXITS.store(0, Ordering::SeqCst);
    ACCEPT_ORD.store(0, Ordering::SeqCst);
    DENY.store(scn.deny, Ordering::SeqCst);
    GATE_OPEN.store(false, Ordering::SeqCst);
    *DONE_AT.lock().unwrap_or_else(|e| e.into_inner()) = None;
}

pub fn run_scenario(scn: &Scn, launch: Launch) -> ScnResult {
    // `None`: the port found by binding port 0 was taken (as the source port of some other process's connection)
    // before `run` could bind it, `run` returned the bind error: not a run of the scenario, take another port
    for _ in 0..5 {
        if let Some(r) = run_once(scn, launch) {
            return r;
        }
    }
    let s = "NO-BIND".to_string();
    ScnResult { scn: scn.text(), ports: s.clone(), refused: String::new(), must: String::new(), log: String::new(), summary: s, ret_ms: 0, clean: true }
}

fn run_once(scn: &Scn, launch: Launch) -> Option<ScnResult> {
    reset_globals(scn);
    let port = free_port(&scn.ip);
    let bind_addr = format!("{}:{}", scn.ip, port);
    let target = format!("{}:{}", loopback_of(&scn.ip), port);
    *PROBE_PORT.lock().unwrap() = Some(target.parse().unwrap());
    let (done_tx, done_rx): (Sender<()>, Receiver<()>) = channel();
    let trigger = launch(scn, bind_addr.clone(), done_tx);
    // wait until the port is in LISTEN (read from /proc: a probe connection would be a client of the scenario)
    let t0 = Instant::now();
    let mut up = listening(port);
    while !up && t0.elapsed() < Duration::from_millis(2000) {
        if DONE_AT.lock().unwrap_or_else(|e| e.into_inner()).is_some() {
            return None;
        }
        std::thread::sleep(Duration::from_micros(300));
        up = listening(port);
    }
    let mut rng = crate::common::Rng::new(scn.seed);
    let n = scn.kinds.len();
    let mut clients: Vec<Client> = Vec::new();
    let mut ports = Vec::new();
    let mut refused = Vec::new();
    let mut ok_so_far = 0usize;
    let t_signal;
    let mut trigger = Some(trigger);
    let fire = |trigger: &mut Option<Box<dyn FnOnce() + Send>>| -> Instant {
        record("+g".into());
        let t = Instant::now();
        if let Some(f) = trigger.take() {
            f();
        }
        t
    };
    match scn.mode {
        'B' => {
            t_signal = fire(&mut trigger);
            for (i, k) in scn.kinds.iter().enumerate() {
                clients.push(place(i, *k, scn.seed, &target, false, &mut ok_so_far, &mut ports, &mut refused));
            }
        }
        'M' => {
            let k = scn.k.min(n);
            for i in 0..k {
                clients.push(place(i, scn.kinds[i], scn.seed, &target, true, &mut ok_so_far, &mut ports, &mut refused));
            }
            settle(&mut clients);
            t_signal = fire(&mut trigger);
            for i in k..n {
                clients.push(place(i, scn.kinds[i], scn.seed, &target, false, &mut ok_so_far, &mut ports, &mut refused));
            }
        }
        'C' => {
            let delay = rng.below(1500);
            let f = trigger.take().unwrap();
            let (ttx, trx) = channel();
            let h = std::thread::spawn(move || {
                std::thread::sleep(Duration::from_micros(delay));
                record("+g".into());
                let t = Instant::now();
                f();
                let _ = ttx.send(t);
            });
            for (i, k) in scn.kinds.iter().enumerate() {
                clients.push(place(i, *k, scn.seed, &target, false, &mut ok_so_far, &mut ports, &mut refused));
            }
            t_signal = trx.recv_timeout(Duration::from_secs(5)).unwrap_or_else(|_| Instant::now());
            let _ = h.join();
        }
        'Q' => {
            let k = scn.k.min(n);
            for i in 0..k {
                clients.push(place(i, scn.kinds[i], scn.seed, &target, true, &mut ok_so_far, &mut ports, &mut refused));
            }
            place_bulk(scn, k, &target, &mut clients, &mut ok_so_far, &mut ports, &mut refused);
            settle(&mut clients);
            t_signal = fire(&mut trigger);
        }
        _ => {
            for (i, k) in scn.kinds.iter().enumerate() {
                clients.push(place(i, *k, scn.seed, &target, true, &mut ok_so_far, &mut ports, &mut refused));
            }
            // let the handlers of the last connections get going (a saturated pool never does)
            std::thread::sleep(Duration::from_millis(rng.below(20)));
            settle(&mut clients);
            t_signal = fire(&mut trigger);
        }
    }
    // --- measurement 1: does `run` return?
    let left = WEDGE.checked_sub(t_signal.elapsed()).unwrap_or(Duration::from_millis(1));
    let returned = done_rx.recv_timeout(left).is_ok();
    // the clients of modes B / M / C are placed between the signal and this point: take the time from the thread
    // that called `run`
    let ret_ms = match *DONE_AT.lock().unwrap_or_else(|e| e.into_inner()) {
        Some(t) => t.saturating_duration_since(t_signal).as_millis(),
        None => t_signal.elapsed().as_millis(),
    };
    let returned = returned && ret_ms < WEDGE.as_millis();
    let must: Vec<String> = clients
        .iter()
        .enumerate()
        .filter(|(_, c)| in_flight(c.kind) && c.placed_before_signal && !c.denied_by_plan && c.stream.is_some())
        // a pipelined connection: every request of it had been written and acknowledged, and `GRACE` had passed,
        // when the signal was sent
        .filter(|(_, c)| pipe_of(c.kind).is_none() || c.acked_at.map_or(false, |w| w + GRACE <= t_signal))
        .map(|(i, _)| i.to_string())
        .collect();
    if !returned {
        let log = LOG.lock().unwrap_or_else(|e| e.into_inner()).join(" ");
        return Some(ScnResult { scn: scn.text(), ports: ports.join(","), refused: refused.join(","), must: must.join(","), log, summary: "WEDGED".into(), ret_ms, clean: false });
    }
    // --- measurement 2: can the port be bound again at once?
    let rebind = match TcpListener::bind(&bind_addr) {
        Ok(l) => {
            drop(l);
            "ok"
        }
        Err(_) => "fail",
    };
    // `run` is back: the gated handlers may finish now
    GATE_OPEN.store(true, Ordering::SeqCst);
    // --- measurement 3: what do the in-flight clients get? First let go of the connections that only hold a
    // worker (a saturated pool starts the queued tasks only then). The connections are read AFTER `run` has
    // returned, every one until it has all the responses it is owed, the peer closes, or the deadline.
    for c in clients.iter_mut() {
        if !in_flight(c.kind) {
            c.stream = None;
        }
    }
    // (large states: every queued connection is a task the workers have to get through first)
    let per_conn = Duration::from_millis(2 * n as u64);
    // (and a pool of one thread runs the handlers one after the other)
    let handlers = Duration::from_millis(clients.iter().map(|c| c.nominal_ms).sum());
    let deadline = Instant::now() + Duration::from_millis(4000) + per_conn + handlers;
    for c in clients.iter_mut() {
        if in_flight(c.kind) {
            let want = c.owed();
            read_response(c, want, deadline);
            // everything owed is there: let go of the connection (a keep-alive one holds a worker until then)
            if !c.expect.is_empty() && responses(&c.got).len() >= want {
                c.stream = None;
            }
        }
    }
    let mut codes = String::new();
    for (i, c) in clients.iter().enumerate() {
        let code = if refused.contains(&i.to_string()) {
            'R'
        } else if !in_flight(c.kind) {
            'h'
        } else {
            c.code()
        };
        codes.push(code);
    }
    for c in clients.iter_mut() {
        c.stream = None;
    }
    // the workers leave once their connections are gone and the channel is closed
    let expect = if scn.rt == 't' { scn.threads } else { 0 };
    let t0 = Instant::now();
    while WORKER_EXITS.load(Ordering::SeqCst) < expect && t0.elapsed() < Duration::from_millis(2500) + per_conn {
        std::thread::sleep(Duration::from_micros(300));
    }
    let exited = WORKER_EXITS.load(Ordering::SeqCst);
    std::thread::sleep(Duration::from_micros(300));
    // a refused connect never entered the accept queue: its `+a` token is not an arrival
    let log = LOG
        .lock()
        .unwrap_or_else(|e| e.into_inner())
        .iter()
        .filter(|t| !(t.starts_with("+a") && refused.contains(&t[2..].to_string())))
        .cloned()
        .collect::<Vec<_>>()
        .join(" ");
    let summary = format!("ret=ok;rebind={};exited={};clients={}", rebind, exited, if codes.is_empty() { "-".into() } else { codes });
    Some(ScnResult { scn: scn.text(), ports: ports.join(","), refused: refused.join(","), must: must.join(","), log, summary, ret_ms, clean: exited == expect })
}

/// Child process loop: one scenario text per stdin line, one answer line per scenario:
/// `scn <TAB> ports <TAB> refused <TAB> must <TAB> log <TAB> summary <TAB> ret_ms`.
pub fn child(launch: Launch) {
    use std::io::BufRead;
    std::panic::set_hook(Box::new(|_| {}));
    let stdin = std::io::stdin();
    let stdout = std::io::stdout();
    for line in stdin.lock().lines() {
        let line = match line {
            Ok(l) => l,
            Err(_) => break,
        };
        let scn = match Scn::parse(line.trim()) {
            Some(s) => s,
            None => continue,
        };
        let r = run_scenario(&scn, launch);
        {
            let mut o = stdout.lock();
            let _ = writeln!(o, "{}\t{}\t{}\t{}\t{}\t{}\t{}", r.scn, r.ports, r.refused, r.must, r.log, r.summary, r.ret_ms);
            let _ = o.flush();
        }
        if !r.clean {
            std::process::exit(3);
        }
    }
}
