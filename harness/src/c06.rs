//! C06: the static handlers (`humphrey::handlers::{serve_dir, serve_as_file_path}`, the server's
//! `directory_handler` / `file_handler`) called in-process against generated directory trees.
//!
//! World layout on disk (`../work/c06_<pid>/<id>/` = the model's world root):
//!   canary2.txt                 second canary, two levels above the served directory
//!   outer/canary.txt            canary next to the served directory
//!   outer/served-x/canary.txt   canary in a sibling whose name extends the served directory's name
//!   outer/served/…              the served directory (generated)
//! Case line: `<handler> <tree> <dir> <route> <uri> <tag>` (see lean/HumphreyModel/Driver/C06.lean).
use crate::common::*;
use humphrey::handlers::{serve_as_file_path, serve_dir};
use humphrey::http::address::Address;
use humphrey::http::headers::{HeaderType, Headers};
use humphrey::http::method::Method;
use humphrey::http::{Request, Response};
use humphrey::percent::PercentEncode;
use humphrey_server::config::{CacheConfig, Config, LoggingConfig};
use humphrey_server::server::logger::LogLevel;
use humphrey_server::server::r#static::{directory_handler, file_handler};
use humphrey_server::server::server::AppState;
use std::ffi::OsStr;
use std::os::unix::ffi::OsStrExt;
use std::path::PathBuf;
use std::sync::atomic::{AtomicU64, Ordering};
use std::sync::Arc;

#[derive(Clone, Debug)]
enum T {
    F(Vec<u8>),
    D(Vec<(Vec<u8>, T)>),
}

fn encode_entries(es: &[(Vec<u8>, T)], o: &mut String) {
    for (n, t) in es {
        match t {
            // a long run of one byte is written as `G<name>:<length>x<byte>;` (large files stay out of the case line)
            T::F(c) if c.len() > 4096 && c.iter().all(|b| *b == c[0]) => {
                o.push('G');
                o.push_str(&hex(n));
                o.push(':');
                o.push_str(&c.len().to_string());
                o.push('x');
                o.push_str(&hex(&c[..1]));
                o.push(';');
            }
            T::F(c) => {
                o.push('F');
                o.push_str(&hex(n));
                o.push(':');
                o.push_str(&hex(c));
                o.push(';');
            }
            T::D(ch) => {
                o.push('D');
                o.push_str(&hex(n));
                o.push('{');
                encode_entries(ch, o);
                o.push('}');
            }
        }
    }
}

fn parse_entries(s: &[u8], mut i: usize) -> Option<(Vec<(Vec<u8>, T)>, usize)> {
    let mut es = Vec::new();
    let hexrun = |mut j: usize| {
        let st = j;
        while j < s.len() && s[j].is_ascii_hexdigit() {
            j += 1;
        }
        (unhex(std::str::from_utf8(&s[st..j]).unwrap()), j)
    };
    loop {
        if i >= s.len() {
            return Some((es, i));
        }
        match s[i] {
            b'}' => return Some((es, i + 1)),
            b'F' => {
                let (n, j) = hexrun(i + 1);
                if s.get(j) != Some(&b':') {
                    return None;
                }
                let (c, k) = hexrun(j + 1);
                if s.get(k) != Some(&b';') {
                    return None;
                }
                es.push((n, T::F(c)));
                i = k + 1;
            }
            b'G' => {
                let (n, j) = hexrun(i + 1);
                if s.get(j) != Some(&b':') {
                    return None;
                }
                let mut k = j + 1;
                let mut len = 0usize;
                while k < s.len() && s[k].is_ascii_digit() {
                    len = len * 10 + (s[k] - b'0') as usize;
                    k += 1;
                }
                if s.get(k) != Some(&b'x') || len > (64 << 20) {
                    return None;
                }
                let (b, m) = hexrun(k + 1);
                if b.len() != 1 || s.get(m) != Some(&b';') {
                    return None;
                }
                es.push((n, T::F(vec![b[0]; len])));
                i = m + 1;
            }
            b'D' => {
                let (n, j) = hexrun(i + 1);
                if s.get(j) != Some(&b'{') {
                    return None;
                }
                let (ch, k) = parse_entries(s, j + 1)?;
                es.push((n, T::D(ch)));
                i = k;
            }
            _ => return None,
        }
    }
}

fn build(base: &PathBuf, es: &[(Vec<u8>, T)]) {
    std::fs::create_dir_all(base).expect("C06: create directory");
    for (n, t) in es {
        let p = base.join(OsStr::from_bytes(n));
        match t {
            T::F(c) => std::fs::write(&p, c).expect("C06: write file"),
            T::D(ch) => build(&p, ch),
        }
    }
}

fn work_root() -> String {
    format!("../work/c06_{}", std::process::id())
}

static COUNTER: AtomicU64 = AtomicU64::new(0);

struct World {
    base: String, // path of the world root on disk
    enc: String,
    state: Arc<AppState>,
}

impl World {
    fn new(es: &[(Vec<u8>, T)]) -> World {
        let base = format!("{}/w{}", work_root(), COUNTER.fetch_add(1, Ordering::SeqCst));
        let _ = std::fs::remove_dir_all(&base);
        build(&PathBuf::from(&base), es);
        let mut enc = String::new();
        encode_entries(es, &mut enc);
        let config = Config {
            cache: CacheConfig { size_limit: 0, time_limit: 0 },
            logging: LoggingConfig { level: LogLevel::Error, console: false, file: None },
            ..Config::default()
        };
        World { base, enc, state: Arc::new(AppState::from(config)) }
    }
    fn remove(&self) {
        let _ = std::fs::remove_dir_all(&self.base);
        let _ = std::fs::remove_dir(work_root()); // succeeds only when empty
    }
}

fn request(uri: &str) -> Request {
    Request {
        method: Method::Get,
        uri: uri.to_string(),
        query: String::new(),
        version: "HTTP/1.1".into(),
        headers: Headers::new(),
        content: None,
        address: Address::new("127.0.0.1:1234").unwrap(),
    }
}

fn fnv(b: &[u8]) -> u32 {
    let mut h: u32 = 2166136261;
    for x in b {
        h = (h ^ (*x as u32)).wrapping_mul(16777619);
    }
    h
}

fn observe(r: Result<Response, String>) -> String {
    match r {
        Err(_) => "PANIC".into(),
        Ok(resp) => {
            let code: u16 = resp.status_code.into();
            let canary = resp.body.windows(6).any(|w| w == b"CANARY") as u8;
            let opt = |h: Option<&str>| match h {
                None => "-".to_string(),
                Some("") => "e".to_string(),
                Some(s) => hex(s.as_bytes()),
            };
            match code {
                200 => format!("200|{}|{}|{}|{}", opt(resp.headers.get(HeaderType::ContentType)), resp.body.len(),
                               fnv(&resp.body), canary),
                301 => format!("301|{}|{}", hex(resp.headers.get(HeaderType::Location).unwrap_or("").as_bytes()), canary),
                c => format!("{}|{}", c, canary),
            }
        }
    }
}

/// One request to one handler. `dir` is relative to the world root.
fn run_one(w: &World, handler: &str, dir: &str, route: &str, uri: &str) -> Option<String> {
    let full: String = format!("{}/{}", w.base, dir);
    Some(match handler {
        "serve_dir" => {
            // the handler wants a &'static str; one small leak per case is bounded by the case count
            let leaked: &'static str = Box::leak(full.into_boxed_str());
            let h = serve_dir::<()>(leaked);
            observe(guarded(|| h(request(uri), Arc::new(()), route)))
        }
        "serve_as_file_path" => {
            let leaked: &'static str = Box::leak(full.into_boxed_str());
            let h = serve_as_file_path::<()>(leaked);
            observe(guarded(|| h(request(uri), Arc::new(()))))
        }
        "directory_handler" => {
            let st = w.state.clone();
            observe(guarded(|| directory_handler(request(uri), st, &full, route, 0)))
        }
        "file_handler" => {
            let st = w.state.clone();
            observe(guarded(|| file_handler(request(uri), st, &full, 0)))
        }
        _ => return None,
    })
}

fn text(h: &str) -> Option<String> {
    String::from_utf8(unhex(h)).ok()
}

/// Re-execute one stored case: rebuild its world, run the request, remove the world.
pub fn exec(f: &[String]) -> Option<String> {
    if f.len() != 6 {
        return None;
    }
    let (es, _) = parse_entries(f[1].as_bytes(), 0)?;
    let w = World::new(&es);
    let route = if f[3] == "-" { String::new() } else { text(&f[3])? };
    let r = if let Some(h) = f[0].strip_suffix("_tokio") {
        match Tokio::start() {
            Some(mut t) => Some(run_one_tokio(&mut t, &w, h, &text(&f[2])?, &route, &text(&f[4])?)),
            None => Some("HVT-NOT-BUILT".into()),
        }
    } else {
        run_one(&w, &f[0], &text(&f[2])?, &route, &text(&f[4])?)
    };
    w.remove();
    r
}

// ------------------------------------------------------------------ generation

const FILE_NAMES: &[&[u8]] = &[
    b"a.txt", b"b.html", b"c.css", b"d.js", b"e.json", b"f.png", b"g.jpeg", b"h.woff2", b"i.unknownext", b"noext",
    b"README", b"multi.dot.tar.gz", b"archive.zip", b".hidden", b".bashrc.txt", b"trail.", b"two..dots.txt", b"...",
    b"sp ace.txt", b"tab\tname.htm", "\u{fc}n\u{ef}.css".as_bytes(), "\u{65e5}\u{672c}\u{8a9e}.json".as_bytes(),
    "emoji\u{1f600}.svg".as_bytes(), b"per%cent.txt", b"%2e%2e", b"%41.txt", b"plus+plus.mjs", b"q?mark.jpg",
    b"hash#.pdf", b"a:b.txt", b"back\\slash.txt", b"semi;colon.mp4", b"UPPER.TXT", b"nl\nname.ico", b"\xffraw.txt",
    b"x.", b".x", b"..x", b"x..", b"a.b.", b"star*.gif", b"e.webm", b"o.ogv", b"w.webp", b"t.ttf", b"o.otf", b"w.woff",
    b"b.bmp", b"z.Html", b"canary.txt",
];
const DIR_NAMES: &[&[u8]] = &[
    b"sub", b"dir.d", b"sp dir", "\u{fc}n\u{ef}".as_bytes(), b"%64ir", b"empty", b"deep", b".hid", b"a.txt.d", b"s",
    b"static", b"served", b"outer", b"d..d", b"c:d",
];

fn content(rng: &mut Rng, id: &mut u32) -> Vec<u8> {
    *id += 1;
    let mut c = format!("f{}:", id).into_bytes();
    match rng.below(6) {
        0 => c.clear(), // empty file (several may coincide; the spec compares length and hash only)
        1 => {
            let n = rng.range(1, 24) as usize;
            c.extend(rng.bytes(n))
        }
        2 => c.extend_from_slice(b"<html>\r\n\0\xff</html>"),
        _ => {}
    }
    c
}

fn gen_dir(rng: &mut Rng, depth: u32, budget: &mut i32, id: &mut u32) -> Vec<(Vec<u8>, T)> {
    let mut es: Vec<(Vec<u8>, T)> = Vec::new();
    let add = |es: &mut Vec<(Vec<u8>, T)>, n: &[u8], t: T| {
        if !es.iter().any(|(k, _)| k == n) {
            es.push((n.to_vec(), t));
        }
    };
    // index files: none / html / htm / both / html is a directory and htm a file / htm is a directory
    match rng.below(8) {
        0 | 1 => add(&mut es, b"index.html", T::F(content(rng, id))),
        2 => add(&mut es, b"index.htm", T::F(content(rng, id))),
        3 => {
            add(&mut es, b"index.html", T::F(content(rng, id)));
            add(&mut es, b"index.htm", T::F(content(rng, id)));
        }
        4 => {
            add(&mut es, b"index.html", T::D(vec![(b"inner.txt".to_vec(), T::F(content(rng, id)))]));
            add(&mut es, b"index.htm", T::F(content(rng, id)));
        }
        5 => add(&mut es, b"index.htm", T::D(vec![])),
        _ => {}
    }
    let nf = rng.range(1, 5);
    for _ in 0..nf {
        if *budget <= 0 {
            break;
        }
        *budget -= 1;
        let n = *rng.pick(FILE_NAMES);
        let c = content(rng, id);
        add(&mut es, n, T::F(c));
    }
    if depth < 4 {
        let nd = if depth == 0 { rng.range(2, 4) } else { rng.below(3) };
        for _ in 0..nd {
            if *budget <= 0 {
                break;
            }
            *budget -= 2;
            let n = *rng.pick(DIR_NAMES);
            let ch = gen_dir(rng, depth + 1, budget, id);
            add(&mut es, n, T::D(ch));
        }
    }
    es
}

fn gen_world(rng: &mut Rng) -> Vec<(Vec<u8>, T)> {
    let mut budget = 26;
    let mut id = 0;
    let served = gen_dir(rng, 0, &mut budget, &mut id);
    vec![
        (b"canary2.txt".to_vec(), T::F(b"CANARY-2 two levels up".to_vec())),
        (
            b"outer".to_vec(),
            T::D(vec![
                (b"canary.txt".to_vec(), T::F(b"<!-- CANARY-1 next to the root -->".to_vec())),
                (b"served-x".to_vec(), T::D(vec![(b"canary.txt".to_vec(), T::F(b"CANARY-3".to_vec()))])),
                (b"served".to_vec(), T::D(served)),
            ]),
        ),
    ]
}

/// Every object below `es`: (relative components, is directory).
fn objects(es: &[(Vec<u8>, T)], prefix: &mut Vec<Vec<u8>>, out: &mut Vec<(Vec<Vec<u8>>, bool)>) {
    for (n, t) in es {
        prefix.push(n.clone());
        match t {
            T::F(_) => out.push((prefix.clone(), false)),
            T::D(ch) => {
                out.push((prefix.clone(), true));
                objects(ch, prefix, out);
            }
        }
        prefix.pop();
    }
}

const SPECIAL: &[&str] = &[
    ".", "..", "...", "", "%2e%2e", "%2E.", ".%2e", "%2f", "%5c", "%00", "%252e", "%c0%ae", "%2e%2e%2f", "..%2f",
    "%2e%2e%5c", "..\\", "%25", "%", "%zz", "%e0%80%ae", "\0", "C:", "%3a", "%2E%2E", "%252e%252e", "%c0%ae%c0%ae",
    "..;", " ..", ".. ", "%2e", "%2F..", "\u{ff0e}\u{ff0e}", "%ff", "*",
];

const ROUTES: &[&str] = &["/static/*", "/*", "/s*", "*", "/static/", "/st\u{e4}tic/*", "/a/*/b*",
                          // prefixes whose length differs in characters and bytes by more than one
                          "/\u{65e5}\u{672c}/*", "/donn\u{e9}es-\u{e9}t\u{e9}/*", "/\u{e9}\u{e9}/*", "/\u{1f600}/*"];

/// A URI under the literal prefix of `route` (everything before its first `*`).
fn under_route(route: &str, path: &str) -> String {
    let prefix: String = route.chars().take_while(|c| *c != '*').collect();
    if prefix.ends_with('/') {
        format!("{}{}", prefix, path.strip_prefix('/').unwrap_or(path))
    } else {
        format!("{}{}", prefix, path)
    }
}

fn mix_encode(rng: &mut Rng, s: &str) -> String {
    let mut o = String::new();
    for b in s.bytes() {
        // a literal '%' is left alone so that existing escapes stay escapes (double encoding is produced by
        // the fully-encoded spelling)
        if b != b'%' && b != b'/' && rng.chance(1, 3) || b >= 0x80 {
            if rng.chance(1, 2) {
                o.push_str(&format!("%{:02x}", b));
            } else {
                o.push_str(&format!("%{:02X}", b));
            }
        } else {
            o.push(b as char);
        }
    }
    o
}

/// `%XY` -> `%xy` (escapes only).
fn lower_escapes(s: &str) -> String {
    let b = s.as_bytes();
    let mut o = String::new();
    let mut i = 0;
    while i < b.len() {
        if b[i] == b'%' && i + 2 < b.len() + 0 && b[i + 1].is_ascii_hexdigit() && b[i + 2].is_ascii_hexdigit() {
            o.push('%');
            o.push((b[i + 1] as char).to_ascii_lowercase());
            o.push((b[i + 2] as char).to_ascii_lowercase());
            i += 3;
        } else {
            let ch = s[i..].chars().next().unwrap();
            o.push(ch);
            i += ch.len_utf8();
        }
    }
    o
}

struct Gen<'a> {
    out: &'a mut Out,
    rng: Rng,
    tokio: Option<Tokio>,
}

/// Co-process `hvt __c06serve`: the async twins of `serve_dir` / `serve_as_file_path` (humphrey built with
/// `--features tokio`), asked the same question about the same on-disk tree.
struct Tokio {
    child: std::process::Child,
    stdin: std::process::ChildStdin,
    stdout: std::io::BufReader<std::process::ChildStdout>,
}

impl Tokio {
    fn start() -> Option<Tokio> {
        let me = std::env::current_exe().ok()?;
        let verif = me.parent()?.parent()?.parent()?.parent()?;
        let exe = verif.join("harness-tokio").join("target").join("release").join("hvt");
        if !exe.exists() {
            return None;
        }
        let mut child = std::process::Command::new(exe)
            .arg("__c06serve")
            .stdin(std::process::Stdio::piped())
            .stdout(std::process::Stdio::piped())
            .stderr(std::process::Stdio::null())
            .spawn()
            .ok()?;
        let stdin = child.stdin.take()?;
        let stdout = std::io::BufReader::new(child.stdout.take()?);
        Some(Tokio { child, stdin, stdout })
    }
    fn ask(&mut self, handler: &str, full_dir: &str, route: &str, uri: &str) -> Option<String> {
        use std::io::{BufRead, Write};
        writeln!(self.stdin, "{}\t{}\t{}\t{}", handler, hex(full_dir.as_bytes()), hex(route.as_bytes()), hex(uri.as_bytes())).ok()?;
        self.stdin.flush().ok()?;
        let mut line = String::new();
        let n = self.stdout.read_line(&mut line).ok()?;
        if n == 0 {
            return None;
        }
        Some(line.trim_end_matches('\n').to_string())
    }
}

impl Drop for Tokio {
    fn drop(&mut self) {
        let _ = self.child.kill();
        let _ = self.child.wait();
    }
}

/// One request to the tokio twin of `handler` (`serve_dir` / `serve_as_file_path`).
fn run_one_tokio(t: &mut Tokio, w: &World, handler: &str, dir: &str, route: &str, uri: &str) -> String {
    let full: String = format!("{}/{}", w.base, dir);
    t.ask(handler, &full, route, uri).unwrap_or_else(|| "ABORT".into())
}

const DIR_SPELLINGS: &[&str] = &[
    "outer/served", "outer/served/", "outer/served//", "./outer/served", "outer/../outer/served/", "outer/./served",
    "outer//served",
];

impl<'a> Gen<'a> {
    /// Send one request path to the three directory handlers (one random route each).
    fn fire(&mut self, w: &World, path: &str, tag: &str, special: bool) {
        let dir = *self.rng.pick(DIR_SPELLINGS);
        // library serve_dir
        let route = *self.rng.pick(ROUTES);
        let uri = if self.rng.chance(1, 16) { path.to_string() } else { under_route(route, path) };
        self.emit(w, "serve_dir", dir, route, &uri, tag, special);
        // server directory route
        let pattern = *self.rng.pick(ROUTES);
        let uri = under_route(pattern, path);
        self.emit(w, "directory_handler", dir, pattern, &uri, tag, special);
        // serve_as_file_path takes the whole URI
        self.emit(w, "serve_as_file_path", dir, "-", path, tag, special);
    }

    fn emit(&mut self, w: &World, handler: &str, dir: &str, route: &str, uri: &str, tag: &str, special: bool) {
        let r = if route == "-" { "" } else { route };
        let impl_out = run_one(w, handler, dir, r, uri).unwrap();
        let status = impl_out.split('|').next().unwrap_or("").to_string();
        self.out.count(&format!("{}:{}", handler, status));
        if impl_out.ends_with("|1") {
            self.out.count("canary-bytes-returned");
        }
        let route_field = if route == "-" { "-".to_string() } else { hex(route.as_bytes()) };
        let nontrivial = special || status == "200" || status == "301";
        self.out.case(&[handler, &w.enc, &hex(dir.as_bytes()), &route_field, &hex(uri.as_bytes()), tag], &impl_out, nontrivial);
        // the same question to the async twin (tokio runtime)
        if handler == "serve_dir" || handler == "serve_as_file_path" {
            if let Some(t) = self.tokio.as_mut() {
                let t_out = run_one_tokio(t, w, handler, dir, r, uri);
                let name = format!("{}_tokio", handler);
                let status = t_out.split('|').next().unwrap_or("").to_string();
                self.out.count(&format!("{}:{}", name, status));
                if t_out.ends_with("|1") {
                    self.out.count("canary-bytes-returned");
                }
                if t_out != impl_out {
                    self.out.count("tokio-differs-from-threaded");
                }
                self.out.case(&[&name, &w.enc, &hex(dir.as_bytes()), &route_field, &hex(uri.as_bytes()), tag], &t_out, nontrivial);
            }
        }
    }
}

fn lossy(b: &[u8]) -> String {
    String::from_utf8_lossy(b).into_owned()
}

pub fn gen(out: &mut Out, thorough: bool, seed: u64) {
    let (trees, fuzz_per_tree) = if thorough { (30, 8_000) } else { (6, 2_600) };
    let rng = Rng::new(seed);
    let tokio = Tokio::start();
    if tokio.is_none() {
        out.extra.insert("tokio".into(), "hvt not built: the async twins of the handlers were not exercised".into());
    }
    let mut g = Gen { out, rng, tokio };
    for _ in 0..trees {
        let es = gen_world(&mut g.rng);
        let w = World::new(&es);
        let served: &[(Vec<u8>, T)] = match &es[1].1 {
            T::D(o) => match &o[2].1 {
                T::D(s) => s,
                _ => unreachable!(),
            },
            _ => unreachable!(),
        };
        let mut objs = vec![(Vec::new(), true)];
        objects(served, &mut Vec::new(), &mut objs);
        g.out.count("trees");
        *g.out.hist.entry("tree-objects".into()).or_insert(0) += objs.len() as u64;

        // (1) every real object under its proper spellings
        for (cs, is_dir) in &objs {
            if cs.iter().any(|c| std::str::from_utf8(c).is_err()) {
                // a name that is not UTF-8 cannot be spelled literally in a Rust String; request its escapes only
                let enc: Vec<String> = cs.iter().map(|c| c.percent_encode()).collect();
                let p = format!("/{}", enc.join("/"));
                g.fire(&w, &p, "-", false);
                continue;
            }
            let names: Vec<String> = cs.iter().map(|c| lossy(c)).collect();
            let joined = names.join("/");
            let tag0 = format!("P0:{}", hex(joined.as_bytes()));
            let tag1 = format!("P1:{}", hex(joined.as_bytes()));
            let literal = format!("/{}", joined);
            let seg_enc = format!("/{}", names.iter().map(|n| n.percent_encode()).collect::<Vec<_>>().join("/"));
            let full_enc = format!("/{}", joined.percent_encode());
            let lower = lower_escapes(&seg_enc);
            let mixed = format!("/{}", mix_encode(&mut g.rng, &joined));
            let mut spellings = vec![literal, seg_enc, full_enc, lower, mixed];
            spellings.dedup();
            for s in &spellings {
                if !cs.is_empty() {
                    g.fire(&w, s, &tag0, false);
                    g.fire(&w, &format!("/{}", s), &tag0, false); // repeated leading slash
                }
                if *is_dir {
                    let with_slash = if cs.is_empty() { "/".to_string() } else { format!("{}/", s) };
                    g.fire(&w, &with_slash, &tag1, false);
                } else {
                    g.fire(&w, &format!("{}/", s), "-", false); // a file with a trailing slash
                }
            }
        }
        // the empty request path and the bare route prefix
        g.fire(&w, "", "P1:", false);

        // (2) composed paths over the segment alphabet of the property
        let mut alphabet: Vec<String> = SPECIAL.iter().map(|s| s.to_string()).collect();
        let mut names: Vec<String> = Vec::new();
        for (cs, _) in &objs {
            if let Some(n) = cs.last() {
                if let Ok(s) = std::str::from_utf8(n) {
                    if !names.contains(&s.to_string()) {
                        names.push(s.to_string());
                    }
                }
            }
        }
        for extra in ["canary.txt", "canary2.txt", "outer", "served", "served-x", "index.html", "index.htm"] {
            if !names.contains(&extra.to_string()) {
                names.push(extra.to_string());
            }
        }
        // the absolute path of the canary as one more (multi-segment) "segment"
        let abs_canary = std::fs::canonicalize(format!("{}/outer/canary.txt", w.base))
            .map(|p| p.to_string_lossy().into_owned())
            .unwrap_or_default();
        alphabet.push(abs_canary.clone());
        alphabet.push(format!("/{}", abs_canary));

        // exhaustive depth <= 2 over specials x specials, and specials x names
        let first: Vec<String> = alphabet.clone();
        for a in &first {
            g.fire(&w, &format!("/{}", a), "-", true);
            for b in SPECIAL.iter().map(|s| s.to_string()).chain(names.iter().take(6).cloned()) {
                g.fire(&w, &format!("/{}/{}", a, b), "-", true);
            }
        }
        // targeted escapes: climb out with every spelling of "..", land on each canary
        let ups = ["..", "%2e%2e", "%2E.", ".%2e", "%252e%252e", "%c0%ae%c0%ae", "..%2f..", "...", "%2e%2e%2f", "..\\"];
        let targets = ["canary.txt", "served-x/canary.txt", "../canary2.txt", "served/../canary.txt"];
        for up in ups {
            for t in targets {
                for pre in ["", "sub/", "sub/deep/", "a.txt/", "./"] {
                    g.fire(&w, &format!("/{}{}/{}", pre, up, t), "-", true);
                    g.fire(&w, &format!("{}{}/{}", pre, up, t), "-", true);
                    g.fire(&w, &format!("/{}{}%2f{}", pre, up, t), "-", true);
                }
            }
        }
        // random composition to depth 5
        for _ in 0..fuzz_per_tree {
            let depth = g.rng.range(1, 5);
            let mut segs: Vec<String> = Vec::new();
            let mut special = false;
            for _ in 0..depth {
                if g.rng.chance(1, 2) {
                    segs.push(g.rng.pick(&names).clone());
                } else {
                    special = true;
                    segs.push(g.rng.pick(&alphabet).clone());
                }
            }
            let raw = segs.join("/");
            let spelled = match g.rng.below(4) {
                0 => raw.clone(),
                1 => segs.iter().map(|s| s.percent_encode()).collect::<Vec<_>>().join("/"),
                2 => mix_encode(&mut g.rng, &raw),
                _ => raw.percent_encode(),
            };
            let lead = match g.rng.below(8) {
                0 => "",
                1 => "//",
                _ => "/",
            };
            let trail = if g.rng.chance(1, 5) { "/" } else { "" };
            g.out.count(if special { "fuzz:with-special-segment" } else { "fuzz:names-only" });
            g.fire(&w, &format!("{}{}{}", lead, spelled, trail), "-", special);
        }
        // URIs shorter than the route prefix (directory_handler strips by count)
        for (pattern, uri) in [("/static/*", "/"), ("/static/*", "/stat"), ("/static/*", ""), ("/s*", "/"), ("/st\u{e4}tic/*", "/st\u{e4}tic"),
                               ("/static/*", "/static/"), ("/s*", "/s"), ("*", "")] {
            g.emit(&w, "directory_handler", "outer/served", pattern, uri, "-", true);
            g.emit(&w, "serve_dir", "outer/served", pattern, uri, "-", true);
        }
        // file routes: the configured file is opened as it is
        for file in ["outer/served/index.html", "outer/served/missing.txt", "outer/served", "outer/canary.txt", "outer/served/sub/../index.htm"] {
            g.emit(&w, "file_handler", file, "-", "/anything", "-", false);
        }
        for (cs, is_dir) in objs.iter().take(12) {
            if !*is_dir && cs.iter().all(|c| std::str::from_utf8(c).is_ok()) {
                let p = format!("outer/served/{}", cs.iter().map(|c| lossy(c)).collect::<Vec<_>>().join("/"));
                g.emit(&w, "file_handler", &p, "-", "/f", "-", false);
            }
        }
        w.remove();
    }
    // one world with LARGE files (around the sizes at which reads are split: 64 KiB, 1 MiB, 2 MiB, 4 MiB): "intact" must
    // not depend on the size of the file, on either runtime
    {
        let mut served: Vec<(Vec<u8>, T)> = Vec::new();
        for (i, n) in [65_537usize, 1_048_577, 2_097_152, 2_097_153, 4_194_305].iter().enumerate() {
            served.push((format!("big{}.bin", i).into_bytes(), T::F(vec![0x41 + i as u8; *n])));
        }
        served.push((b"index.html".to_vec(), T::F(vec![0x7a; 3_000_001])));
        let es = vec![
            (b"canary2.txt".to_vec(), T::F(b"CANARY-2 two levels up".to_vec())),
            (b"outer".to_vec(), T::D(vec![
                (b"canary.txt".to_vec(), T::F(b"<!-- CANARY-1 next to the root -->".to_vec())),
                (b"served-x".to_vec(), T::D(vec![(b"canary.txt".to_vec(), T::F(b"CANARY-3".to_vec()))])),
                (b"served".to_vec(), T::D(served)),
            ])),
        ];
        let w = World::new(&es);
        g.out.count("trees");
        for i in 0..5 {
            let name = format!("big{}.bin", i);
            let tag0 = format!("P0:{}", hex(name.as_bytes()));
            g.fire(&w, &format!("/{}", name), &tag0, true);
        }
        g.fire(&w, "/", "-", true);
        g.fire(&w, "/index.html", "-", true);
        w.remove();
    }
    g.out.extra.insert("worlds".into(), format!("{} generated trees, removed after use; canaries at outer/canary.txt, outer/served-x/canary.txt, canary2.txt", trees));
    g.out.extra.insert("exhaustive_block".into(), "every object of every tree under 5 spellings (literal, per-segment encoded, fully encoded, lower-case escapes, mixed) x 3 handlers; all (special, special) and (special, name) pairs; every spelling of '..' x every canary".into());
}
