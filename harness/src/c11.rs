//! C11: the WebSocket endpoint (`humphrey_ws::{websocket_handler, WebsocketStream, Message}`) over a
//! scripted socket (`humphrey::stream::Stream::Mock`).
//!
//! Case lines (see `lean/HumphreyModel/Driver/C11.lean`):
//!   hs   headers                       -> `U/<writes>` (handler called) | `X/<writes>` (not upgraded)
//!   sess frames keep delivery ops      -> `res/writes;res/writes;…;D/writes` (one entry per op, then the drop)
//!
//! `headers`: `-` or `hexname=hexvalue` joined by `,`. `frames`: `-` or frames joined by `,`, each
//! `fin.rsv.opcode.mask.key.payloadhex`. `keep`: how many bytes of the client's byte stream arrive before
//! the connection ends. `delivery`: `-` or items joined by `,`: a decimal `k` = the next `k` bytes arrive
//! as one segment, `n` = a moment at which nothing has arrived yet (a non-blocking read there gets
//! `WouldBlock`, a blocking read waits for the next segment); what is left after the last item is one
//! more segment. `ops`: joined by `,`: `r` recv, `n` recv_nonblocking, `p` ping, `s0<hex>` send
//! `Message::new_binary`, `s1<hex>` send `Message::new`. The stream is dropped after the last op.
//! `writes`: hex of every `write` call made during the op, joined by `.`.
//!
//! Run-length forms (scripts of 200 000 frames stay small in the case line): an item of `frames`, `delivery`
//! and `ops` may be `<count>*<group>`, a group being items joined by `+`; a frame's payload is hex or
//! `g<len>s<seed>` (the bytes `(31 i + 7 (i / 251) + seed) mod 256`), `t<len>s<seed>` (printable ASCII,
//! `32 + (7 i + seed) mod 95`) or `u<len>s<seed>` (the 10 bytes of "a\u{e9}\u{20ac}\u{1f600}" repeated, starting at
//! offset `seed mod 10`: UTF-8 exactly when both ends fall on character boundaries). In the output a run of identical
//! consecutive writes of an op is `<count>*<hex>`, a run of identical consecutive entries `<count>*<entry>`, and
//! a message payload above 100 000 bytes is `#<len>:<FNV-1a 64>`. Cases written with these forms (`scale_cases`)
//! run in a WORKER PROCESS, the session on a thread with Rust's default 2 MiB stack (what a handler thread
//! of the server has): `ABORT` (the process died, e.g. stack overflow) and `TIMEOUT` are observations.
use crate::common::*;
use humphrey::http::headers::Headers;
use humphrey::http::method::Method;
use humphrey::http::address::Address;
use humphrey::http::Request;
use humphrey::stream::{MockIo, Stream};
use humphrey_ws::error::WebsocketError;
use humphrey_ws::message::Message;
use humphrey_ws::restion::Restion;
use humphrey_ws::stream::WebsocketStream;
use humphrey_ws::websocket_handler;
use std::collections::VecDeque;
use std::io::{Error, ErrorKind, Read, Write};
use std::net::SocketAddr;
use std::sync::atomic::{AtomicBool, Ordering};
use std::sync::{Arc, Mutex};
use std::time::Duration;

/* ---------------------------------------------------------------- the scripted socket */

#[derive(Clone, Debug)]
pub enum Ev {
    /// bytes that arrive as one segment (a `read` returns at most what is left of it)
    Data(Vec<u8>),
    /// nothing has arrived yet: `WouldBlock` for a non-blocking read, skipped by a blocking one
    NotYet,
}

#[derive(Default)]
pub struct Shared {
    /// one entry per `write` call
    pub writes: Vec<Vec<u8>>,
    /// every `set_nonblocking(flag)` call
    pub switches: Vec<bool>,
    /// events not yet consumed
    pub left: usize,
    pub shutdowns: usize,
}

pub struct Mock {
    evs: VecDeque<Ev>,
    off: usize,
    nonblocking: AtomicBool,
    shared: Arc<Mutex<Shared>>,
    nreads: u64,
    nwrites: u64,
    partial: bool,
}

impl Mock {
    pub fn new(evs: Vec<Ev>) -> (Mock, Arc<Mutex<Shared>>) {
        let shared = Arc::new(Mutex::new(Shared { left: evs.len(), ..Default::default() }));
        (Mock { evs: evs.into(), off: 0, nonblocking: AtomicBool::new(false), shared: shared.clone(), nreads: 0, nwrites: 0, partial: false }, shared)
    }
}

impl Read for Mock {
    fn read(&mut self, buf: &mut [u8]) -> std::io::Result<usize> {
        // a blocking read is now and then interrupted by a signal (EINTR): nothing is consumed, the caller must retry
        self.nreads += 1;
        if self.nreads % 3 == 2 && !self.nonblocking.load(Ordering::SeqCst) && matches!(self.evs.front(), Some(Ev::Data(_))) && !buf.is_empty() {
            return Err(Error::new(ErrorKind::Interrupted, "interrupted"));
        }
        loop {
            let r = match self.evs.front() {
                None => Some(Ok(0)),
                Some(Ev::NotYet) => {
                    self.evs.pop_front();
                    if self.nonblocking.load(Ordering::SeqCst) {
                        Some(Err(Error::new(ErrorKind::WouldBlock, "nothing yet")))
                    } else {
                        None
                    }
                }
                Some(Ev::Data(d)) => {
                    let n = (d.len() - self.off).min(buf.len());
                    buf[..n].copy_from_slice(&d[self.off..self.off + n]);
                    self.off += n;
                    if self.off >= d.len() {
                        self.evs.pop_front();
                        self.off = 0;
                    }
                    Some(Ok(n))
                }
            };
            self.shared.lock().unwrap().left = self.evs.len();
            if let Some(r) = r {
                return r;
            }
        }
    }
}

impl Write for Mock {
    /// Every other call takes only the first half of what is offered (the continuation is appended to the same logical
    /// write), every fifth is interrupted before taking anything: `write_all` copes, a bare `write` does not.
    fn write(&mut self, buf: &[u8]) -> std::io::Result<usize> {
        self.nwrites += 1;
        if self.nwrites % 5 == 4 && !buf.is_empty() {
            return Err(Error::new(ErrorKind::Interrupted, "interrupted"));
        }
        let n = if self.nwrites % 2 == 1 && buf.len() >= 2 { buf.len() / 2 } else { buf.len() };
        let mut sh = self.shared.lock().unwrap();
        if self.partial && !sh.writes.is_empty() {
            sh.writes.last_mut().unwrap().extend_from_slice(&buf[..n]);
        } else {
            sh.writes.push(buf[..n].to_vec());
        }
        self.partial = n < buf.len();
        Ok(n)
    }
    fn flush(&mut self) -> std::io::Result<()> {
        Ok(())
    }
}

impl MockIo for Mock {
    fn peer_addr(&self) -> Result<SocketAddr, Error> {
        Ok("127.0.0.1:40000".parse().unwrap())
    }
    fn shutdown(&self) -> std::io::Result<()> {
        self.shared.lock().unwrap().shutdowns += 1;
        Ok(())
    }
    fn set_timeout(&self, _timeout: Option<Duration>) -> std::io::Result<()> {
        Ok(())
    }
    fn set_nonblocking(&self, nonblocking: bool) -> std::io::Result<()> {
        self.nonblocking.store(nonblocking, Ordering::SeqCst);
        self.shared.lock().unwrap().switches.push(nonblocking);
        Ok(())
    }
}

/* ---------------------------------------------------------------- client frames (reference encoder) */

#[derive(Clone, Debug)]
pub struct CF {
    fin: bool,
    rsv: [bool; 3],
    opcode: u8,
    mask: bool,
    key: [u8; 4],
    payload: Vec<u8>,
}

/// RFC 6455 section 5.2 octets of a client frame (written here independently of the crate's encoder).
fn client_bytes(f: &CF) -> Vec<u8> {
    let mut v = Vec::with_capacity(f.payload.len() + 14);
    let mut b0 = f.opcode & 0x0f;
    if f.fin {
        b0 |= 0x80;
    }
    if f.rsv[0] {
        b0 |= 0x40;
    }
    if f.rsv[1] {
        b0 |= 0x20;
    }
    if f.rsv[2] {
        b0 |= 0x10;
    }
    v.push(b0);
    let m = if f.mask { 0x80u8 } else { 0 };
    let l = f.payload.len();
    if l <= 125 {
        v.push(m | l as u8);
    } else if l <= 65535 {
        v.push(m | 126);
        v.push((l >> 8) as u8);
        v.push(l as u8);
    } else {
        v.push(m | 127);
        for i in (0..8).rev() {
            v.push(((l as u64) >> (8 * i)) as u8);
        }
    }
    if f.mask {
        v.extend_from_slice(&f.key);
        for (i, x) in f.payload.iter().enumerate() {
            v.push(x ^ f.key[i % 4]);
        }
    } else {
        v.extend_from_slice(&f.payload);
    }
    v
}

fn bit(x: bool) -> char {
    if x { '1' } else { '0' }
}

fn frame_text(f: &CF) -> String {
    format!(
        "{}.{}{}{}.{}.{}.{}.{}",
        bit(f.fin), bit(f.rsv[0]), bit(f.rsv[1]), bit(f.rsv[2]), f.opcode, bit(f.mask), hex(&f.key), hex(&f.payload)
    )
}

fn frames_text(fs: &[CF]) -> String {
    if fs.is_empty() { "-".into() } else { fs.iter().map(frame_text).collect::<Vec<_>>().join(",") }
}

/// `<count>*<rest>` → `(count, rest)`; anything else → `(1, s)`.
fn count_prefix(s: &str) -> (usize, &str) {
    if let Some((n, rest)) = s.split_once('*') {
        if !n.is_empty() && n.bytes().all(|b| b.is_ascii_digit()) {
            if let Ok(k) = n.parse::<usize>() {
                return (k, rest);
            }
        }
    }
    (1, s)
}

/// Items joined by `sep`, each `[count*]a+b+…`, expanded.
fn expand_items<T: Clone>(s: &str, sep: char, parse: &dyn Fn(&str) -> Option<T>) -> Option<Vec<T>> {
    let mut out = Vec::new();
    for item in s.split(sep) {
        let (k, body) = count_prefix(item);
        let group: Vec<T> = body.split('+').map(parse).collect::<Option<Vec<T>>>()?;
        for _ in 0..k {
            out.extend(group.iter().cloned());
        }
    }
    Some(out)
}

/// Run-length form of a list of texts: a run of `k >= 2` equal neighbours becomes `k*text`.
fn rle(items: &[String]) -> Vec<String> {
    let mut out = Vec::new();
    let mut i = 0;
    while i < items.len() {
        let mut j = i + 1;
        while j < items.len() && items[j] == items[i] {
            j += 1;
        }
        out.push(if j - i >= 2 { format!("{}*{}", j - i, items[i]) } else { items[i].clone() });
        i = j;
    }
    out
}

fn fnv(b: &[u8]) -> u64 {
    let mut h: u64 = 0xcbf29ce484222325;
    for x in b {
        h ^= *x as u64;
        h = h.wrapping_mul(0x100000001b3);
    }
    h
}

/// Payload of a delivered message: hex, or length and hash above 100 000 bytes.
fn payload_text(p: &[u8]) -> String {
    if p.len() > 100_000 { format!("#{}:{:016x}", p.len(), fnv(p)) } else { hex(p) }
}

/// `g<len>s<seed>`: the generated payload `(31 i + 7 (i / 251) + seed) mod 256`.
fn gen_payload(len: usize, seed: usize) -> Vec<u8> {
    (0..len).map(|i| ((31 * i + 7 * (i / 251) + seed) % 256) as u8).collect()
}

/// `t<len>s<seed>`: printable ASCII, `32 + (7 i + seed) mod 95`.
fn gen_ascii(len: usize, seed: usize) -> Vec<u8> {
    (0..len).map(|i| (32 + (7 * i + seed) % 95) as u8).collect()
}

/// The bytes of "a\u{e9}\u{20ac}\u{1f600}" (characters of 1, 2, 3 and 4 bytes).
const UTF8_UNIT: [u8; 10] = [0x61, 0xc3, 0xa9, 0xe2, 0x82, 0xac, 0xf0, 0x9f, 0x98, 0x80];

/// `u<len>s<seed>`: `UTF8_UNIT` repeated, starting at offset `seed mod 10`.
fn gen_utf8(len: usize, seed: usize) -> Vec<u8> {
    (0..len).map(|i| UTF8_UNIT[(i + seed) % 10]).collect()
}

fn parse_payload(s: &str) -> Option<Vec<u8>> {
    for (c, f) in [('g', gen_payload as fn(usize, usize) -> Vec<u8>), ('t', gen_ascii), ('u', gen_utf8)] {
        if let Some(rest) = s.strip_prefix(c) {
            let (l, sd) = rest.split_once('s')?;
            return Some(f(l.parse().ok()?, sd.parse().ok()?));
        }
    }
    Some(unhex(s))
}

fn parse_frame(s: &str) -> Option<CF> {
    let p: Vec<&str> = s.split('.').collect();
    if p.len() != 6 {
        return None;
    }
    let b = |s: &str| match s {
        "0" => Some(false),
        "1" => Some(true),
        _ => None,
    };
    let r: Vec<char> = p[1].chars().collect();
    if r.len() != 3 {
        return None;
    }
    let k = unhex(p[4]);
    if k.len() != 4 {
        return None;
    }
    Some(CF {
        fin: b(p[0])?,
        rsv: [b(&r[0].to_string())?, b(&r[1].to_string())?, b(&r[2].to_string())?],
        opcode: p[2].parse().ok()?,
        mask: b(p[3])?,
        key: [k[0], k[1], k[2], k[3]],
        payload: parse_payload(p[5])?,
    })
}

fn parse_frames(s: &str) -> Option<Vec<CF>> {
    if s == "-" {
        return Some(vec![]);
    }
    expand_items(s, ',', &parse_frame)
}

/* ---------------------------------------------------------------- delivery */

#[derive(Clone, Debug, PartialEq)]
enum Item {
    Seg(usize),
    NotYet,
}

fn delivery_text(d: &[Item]) -> String {
    if d.is_empty() {
        return "-".into();
    }
    d.iter()
        .map(|i| match i {
            Item::Seg(k) => k.to_string(),
            Item::NotYet => "n".into(),
        })
        .collect::<Vec<_>>()
        .join(",")
}

fn parse_delivery(s: &str) -> Option<Vec<Item>> {
    if s == "-" {
        return Some(vec![]);
    }
    expand_items(s, ',', &|x: &str| if x == "n" { Some(Item::NotYet) } else { x.parse().ok().filter(|k| *k > 0).map(Item::Seg) })
}

fn events(bytes: &[u8], d: &[Item]) -> Vec<Ev> {
    let mut evs = Vec::new();
    let mut rest = bytes;
    for i in d {
        match i {
            Item::NotYet => evs.push(Ev::NotYet),
            Item::Seg(k) => {
                let k = (*k).min(rest.len());
                if k > 0 {
                    evs.push(Ev::Data(rest[..k].to_vec()));
                    rest = &rest[k..];
                }
            }
        }
    }
    if !rest.is_empty() {
        evs.push(Ev::Data(rest.to_vec()));
    }
    evs
}

/* ---------------------------------------------------------------- running a session */

#[derive(Clone, Debug)]
enum Op {
    Recv,
    RecvNb,
    Ping,
    Send(bool, Vec<u8>),
    /// receive (`true`: without blocking) and send the received `Message` object back
    Echo(bool),
    /// receive (`true`: without blocking) and keep the `Message` object
    Keep(bool),
    /// send the oldest kept message (it leaves the queue)
    Relay,
    /// send a clone of the oldest kept message (it stays in the queue)
    Again,
}

fn op_text(o: &Op) -> String {
    match o {
        Op::Recv => "r".into(),
        Op::RecvNb => "n".into(),
        Op::Ping => "p".into(),
        Op::Send(t, p) => format!("s{}{}", if *t { 1 } else { 0 }, hex(p)),
        Op::Echo(false) => "e".into(),
        Op::Echo(true) => "f".into(),
        Op::Keep(false) => "k".into(),
        Op::Keep(true) => "j".into(),
        Op::Relay => "q".into(),
        Op::Again => "c".into(),
    }
}

fn ops_text(ops: &[Op]) -> String {
    if ops.is_empty() { "-".into() } else { ops.iter().map(op_text).collect::<Vec<_>>().join(",") }
}

fn parse_ops(s: &str) -> Option<Vec<Op>> {
    if s == "-" {
        return Some(vec![]);
    }
    expand_items(s, ',', &|x: &str| match x {
        "r" => Some(Op::Recv),
        "n" => Some(Op::RecvNb),
        "p" => Some(Op::Ping),
        "e" => Some(Op::Echo(false)),
        "f" => Some(Op::Echo(true)),
        "k" => Some(Op::Keep(false)),
        "j" => Some(Op::Keep(true)),
        "q" => Some(Op::Relay),
        "c" => Some(Op::Again),
        _ if x.starts_with("s0") => Some(Op::Send(false, unhex(&x[2..]))),
        _ if x.starts_with("s1") => Some(Op::Send(true, unhex(&x[2..]))),
        _ => None,
    })
}

fn err_text(e: &WebsocketError) -> String {
    format!("E:{:?}", e)
}

fn msg_text(m: &Message) -> String {
    format!("{}{}", if m.is_text() { "T" } else { "B" }, payload_text(m.bytes()))
}

struct Session {
    ws: Option<WebsocketStream>,
    shared: Arc<Mutex<Shared>>,
    seen_writes: usize,
    out: Vec<String>,
    /// received messages kept by `k` / `j`
    held: VecDeque<Message>,
}

/// One receive call: the message, or the text of any other result.
fn receive(ws: &mut WebsocketStream, nonblocking: bool) -> Result<Message, String> {
    if nonblocking {
        match ws.recv_nonblocking() {
            Restion::Ok(m) => Ok(m),
            Restion::Err(e) => Err(err_text(&e)),
            Restion::None => Err("N".into()),
        }
    } else {
        ws.recv().map_err(|e| err_text(&e))
    }
}

fn sent_text(r: Result<(), WebsocketError>) -> String {
    match r {
        Ok(()) => "S".into(),
        Err(e) => err_text(&e),
    }
}

impl Session {
    fn new(evs: Vec<Ev>) -> Session {
        let (mock, shared) = Mock::new(evs);
        Session { ws: Some(WebsocketStream::new(Stream::Mock(Box::new(mock)))), shared, seen_writes: 0, out: Vec::new(), held: VecDeque::new() }
    }

    fn new_writes(&mut self) -> String {
        let sh = self.shared.lock().unwrap();
        let w = rle(&sh.writes[self.seen_writes..].iter().map(|w| payload_text(w)).collect::<Vec<_>>()).join(".");
        self.seen_writes = sh.writes.len();
        // the stream must be back in blocking mode after every call
        if sh.switches.last() == Some(&true) {
            return format!("{}!LEFT-NONBLOCKING", w);
        }
        w
    }

    /// Runs one op; returns its result text.
    fn op(&mut self, o: &Op) -> String {
        let ws = self.ws.as_mut().unwrap();
        let held = &mut self.held;
        let r = guarded(|| match o {
            Op::Recv => match receive(ws, false) {
                Ok(m) => msg_text(&m),
                Err(t) => t,
            },
            Op::RecvNb => match receive(ws, true) {
                Ok(m) => msg_text(&m),
                Err(t) => t,
            },
            Op::Ping => sent_text(ws.ping()),
            Op::Send(text, p) => {
                let m = if *text { Message::new(p) } else { Message::new_binary(p) };
                sent_text(ws.send(m))
            }
            Op::Echo(nb) => match receive(ws, *nb) {
                Ok(m) => {
                    let t = msg_text(&m);
                    // the object that was received goes back as it is
                    format!("{}>{}", t, sent_text(ws.send(m)))
                }
                Err(t) => t,
            },
            Op::Keep(nb) => match receive(ws, *nb) {
                Ok(m) => {
                    let t = msg_text(&m);
                    held.push_back(m);
                    t
                }
                Err(t) => t,
            },
            Op::Relay => match held.pop_front() {
                Some(m) => sent_text(ws.send(m)),
                None => "-".into(),
            },
            Op::Again => match held.front() {
                Some(m) => sent_text(ws.send(m.clone())),
                None => "-".into(),
            },
        });
        let r = r.unwrap_or_else(|_| "PANIC".into());
        let w = self.new_writes();
        self.out.push(format!("{}/{}", r, w));
        r
    }

    fn exhausted(&self) -> bool {
        self.shared.lock().unwrap().left == 0
    }

    fn finish(mut self) -> String {
        let ws = self.ws.take();
        let r = guarded(move || drop(ws));
        let w = self.new_writes();
        self.out.push(format!("{}/{}", if r.is_ok() { "D" } else { "PANIC" }, w));
        rle(&self.out).join(";")
    }
}

fn wire(frames: &[CF], keep: usize) -> Vec<u8> {
    let mut bytes = Vec::new();
    for f in frames {
        bytes.extend(client_bytes(f));
    }
    bytes.truncate(keep);
    bytes
}

fn run_session(frames: &[CF], keep: usize, d: &[Item], ops: &[Op]) -> String {
    let mut s = Session::new(events(&wire(frames, keep), d));
    for o in ops {
        s.op(o);
    }
    s.finish()
}

/* ---------------------------------------------------------------- handshake */

fn headers_text(hs: &[(String, String)]) -> String {
    if hs.is_empty() {
        return "-".into();
    }
    hs.iter().map(|(n, v)| format!("{}={}", hex(n.as_bytes()), hex(v.as_bytes()))).collect::<Vec<_>>().join(",")
}

fn parse_headers(s: &str) -> Option<Vec<(String, String)>> {
    if s == "-" {
        return Some(vec![]);
    }
    s.split(',')
        .map(|x| {
            let (n, v) = x.split_once('=')?;
            Some((String::from_utf8(unhex(n)).ok()?, String::from_utf8(unhex(v)).ok()?))
        })
        .collect()
}

/// The public `websocket_handler(..)` closure on a request with the given headers; the handler it
/// wraps only notes that it was called and lets the stream go out of scope.
fn run_handshake(hs: &[(String, String)]) -> String {
    let hs = hs.to_vec();
    let (mock, shared) = Mock::new(vec![]);
    let called = Arc::new(AtomicBool::new(false));
    let called2 = called.clone();
    let r = guarded(move || {
        let mut headers = Headers::new();
        for (n, v) in &hs {
            headers.add(n.as_str(), v);
        }
        let request = Request {
            method: Method::Get,
            uri: "/ws".into(),
            query: String::new(),
            version: "HTTP/1.1".into(),
            headers,
            content: None,
            address: Address::new("127.0.0.1:40000").unwrap(),
        };
        let handler = websocket_handler(move |_stream: WebsocketStream, _state: Arc<()>| {
            called2.store(true, Ordering::SeqCst);
        });
        handler(request, Stream::Mock(Box::new(mock)), Arc::new(()));
    });
    if r.is_err() {
        return "PANIC".into();
    }
    let sh = shared.lock().unwrap();
    format!(
        "{}/{}",
        if called.load(Ordering::SeqCst) { "U" } else { "X" },
        sh.writes.iter().map(|w| hex(w)).collect::<Vec<_>>().join(".")
    )
}

/* ---------------------------------------------------------------- exec */

pub fn exec(f: &[String]) -> Option<String> {
    match (f[0].as_str(), f.len()) {
        ("hs", 2) => Some(run_handshake(&parse_headers(&f[1])?)),
        ("sess", 5) => {
            // cases written with the run-length / generated-payload forms are the large ones: they run in a worker
            // process (an abort of the process is then an observation), whoever asks
            let large = f[1].contains('*') || f[1].contains(|c| c == 'g' || c == 't' || c == 'u') || f[3].contains('*') || f[4].contains('*');
            if large && !in_worker() {
                return crate::worker::run_cases("C11", &[f.to_vec()], SCALE_WATCHDOG).pop();
            }
            let frames = parse_frames(&f[1])?;
            let keep: usize = f[2].parse().ok()?;
            let d = parse_delivery(&f[3])?;
            let ops = parse_ops(&f[4])?;
            // on a thread of its own, with the default stack size of `std::thread` (2 MiB): that is what a
            // connection handler of the server runs on
            let h = std::thread::Builder::new().spawn(move || run_session(&frames, keep, &d, &ops)).ok()?;
            Some(h.join().unwrap_or_else(|_| "PANIC".into()))
        }
        _ => None,
    }
}

/// Is this process a `hv __worker <property>` child?
fn in_worker() -> bool {
    std::env::args().nth(1).as_deref() == Some("__worker")
}

/// Watchdog for one large session in a worker process.
const SCALE_WATCHDOG: Duration = Duration::from_secs(30);

/* ---------------------------------------------------------------- generators */

const TEXT: u8 = 1;
const BIN: u8 = 2;
const CONT: u8 = 0;
const CLOSE: u8 = 8;
const PING: u8 = 9;
const PONG: u8 = 10;

fn frame_len(f: &CF) -> usize {
    let l = f.payload.len();
    2 + if l <= 125 { 0 } else if l <= 65535 { 2 } else { 8 } + if f.mask { 4 } else { 0 } + l
}

fn rand_key(rng: &mut Rng) -> [u8; 4] {
    match rng.below(10) {
        0 => [0, 0, 0, 0],
        1 => [0xff, 0xff, 0xff, 0xff],
        2 => [0x81, 0x89, 0x88, 0x8a],
        _ => {
            let k = rng.bytes(4);
            [k[0], k[1], k[2], k[3]]
        }
    }
}

fn rand_payload(rng: &mut Rng, n: usize, text: bool) -> Vec<u8> {
    if text && rng.chance(3, 4) {
        (0..n).map(|_| b' ' + rng.below(95) as u8).collect()
    } else {
        rng.bytes(n)
    }
}

/// Payload length of a data frame. `big` allows the 16-bit and 64-bit length forms (up to 70 KiB).
fn data_len(rng: &mut Rng, big: &mut bool) -> usize {
    let r = rng.below(100);
    if r < 15 {
        0
    } else if r < 45 {
        rng.range(1, 10) as usize
    } else if r < 72 {
        rng.range(11, 125) as usize
    } else if r < 76 {
        *rng.pick(&[124usize, 125, 126, 127, 128])
    } else if r < 92 {
        rng.range(126, 700) as usize
    } else if *big {
        *big = false;
        match rng.below(4) {
            0 => *rng.pick(&[65534usize, 65535, 65536, 65537]),
            1 => rng.range(60 * 1024, 70 * 1024) as usize,
            _ => rng.range(701, 66000) as usize,
        }
    } else {
        rng.range(1, 60) as usize
    }
}

fn mk(rng: &mut Rng, fin: bool, opcode: u8, payload: Vec<u8>) -> CF {
    // clients mask (RFC 6455 5.3); the server also accepts unmasked frames
    let mask = !rng.chance(1, 12);
    let rsv = if rng.chance(1, 25) { [rng.chance(1, 2), rng.chance(1, 2), rng.chance(1, 2)] } else { [false; 3] };
    CF { fin, rsv, opcode, mask, key: if mask { rand_key(rng) } else { [0; 4] }, payload }
}

fn control(rng: &mut Rng, opcode: u8) -> CF {
    let n = match rng.below(10) {
        0..=3 => 0,
        4..=7 => rng.range(1, 12) as usize,
        8 => 125,
        _ => rng.range(13, 125) as usize,
    };
    let t = rng.chance(1, 2);
    let p = rand_payload(rng, n, t);
    mk(rng, true, opcode, p)
}

fn close_frame(rng: &mut Rng) -> CF {
    let p = match rng.below(4) {
        0 => vec![],
        1 => vec![0x03, 0xe8],
        2 => {
            let mut v = vec![0x03, 0xe9];
            v.extend_from_slice(b"going away");
            v
        }
        _ => {
            let n = rng.range(2, 40) as usize;
            rng.bytes(n)
        }
    };
    mk(rng, true, CLOSE, p)
}

/// A client script: messages (1..5 fragments, control frames between them), pings, pongs; ending by a
/// close frame, by nothing (server drop / EOF at a frame boundary) or in the middle of a message.
fn gen_script(rng: &mut Rng, allow_big: bool) -> Vec<CF> {
    let mut big = allow_big;
    let target = rng.range(1, 12) as usize;
    let mut fs: Vec<CF> = Vec::new();
    while fs.len() < target {
        match rng.below(10) {
            0 | 1 => fs.push(control(rng, PING)),
            2 => fs.push(control(rng, PONG)),
            _ => {
                let text = rng.chance(1, 2);
                let parts = if rng.chance(1, 2) { 1 } else { rng.range(2, 5) as usize };
                // a third of the text messages is well-formed multi-byte UTF-8 cut into fragments at arbitrary BYTE offsets
                // (a fragment may end inside a character: only the whole message is text)
                let utf8_pieces: Option<Vec<Vec<u8>>> = if text && rng.chance(1, 3) {
                    let nchars = rng.range(parts as u64, 40) as usize;
                    let whole: String = (0..nchars).map(|_| *rng.pick(&['a', '\u{e9}', '\u{df}', '\u{4e2d}', '\u{2713}', '\u{1f600}', ' ', '\u{7ff}', '\u{800}', '\u{10000}'])).collect();
                    let mut b = whole.into_bytes();
                    // a third of these is NOT UTF-8 as a whole (the message is still a text message: the client said so):
                    // cut in the last character, a byte that never occurs in UTF-8, a stray continuation byte, a Latin-1
                    // letter, an encoded surrogate, an overlong form
                    if rng.chance(1, 3) {
                        let at = rng.below(b.len() as u64 + 1) as usize;
                        match rng.below(6) {
                            0 => {
                                if *b.last().unwrap() >= 0x80 { b.pop(); } else { b.push(*rng.pick(&[0xc3u8, 0xe2, 0xf0])); }
                            }
                            1 => { let i = at.min(b.len() - 1); b[i] = *rng.pick(&[0xffu8, 0xfe, 0xc0, 0xf8]); }
                            2 => b.insert(at, 0x80),
                            3 => b.insert(at, 0xe9),
                            4 => { b.splice(at..at, [0xedu8, 0xa0, 0x80]); }
                            _ => { b.splice(at..at, [0xc0u8, 0xaf]); }
                        }
                    }
                    let mut cuts: Vec<usize> = (0..parts - 1).map(|_| rng.below(b.len() as u64 + 1) as usize).collect();
                    cuts.sort();
                    let mut pieces = Vec::new();
                    let mut prev = 0;
                    for c in cuts { pieces.push(b[prev..c].to_vec()); prev = c; }
                    pieces.push(b[prev..].to_vec());
                    Some(pieces)
                } else {
                    None
                };
                for i in 0..parts {
                    let p = match &utf8_pieces {
                        Some(ps) => ps[i].clone(),
                        None => { let n = data_len(rng, &mut big); rand_payload(rng, n, text) }
                    };
                    let op = if i == 0 {
                        if text { TEXT } else { BIN }
                    } else if rng.chance(1, 40) {
                        // a client that repeats the data opcode on a later fragment
                        if text { TEXT } else { BIN }
                    } else {
                        CONT
                    };
                    fs.push(mk(rng, i + 1 == parts, op, p));
                    if i + 1 < parts && rng.chance(2, 5) {
                        let c = *rng.pick(&[PING, PING, PONG]);
                        fs.push(control(rng, c));
                    }
                }
            }
        }
    }
    fs.truncate(12);
    match rng.below(10) {
        0..=4 => {
            // client close
            if fs.len() == 12 {
                fs.pop();
            }
            // a message may be left unfinished by the truncation above: that is the "close inside a
            // fragmented message" case
            fs.push(close_frame(rng));
            if rng.chance(1, 8) && fs.len() < 12 {
                // frames after the close are never looked at
                fs.push(control(rng, PING));
            }
        }
        5 => {
            // a script that starts with a continuation frame (no first fragment)
            if rng.chance(1, 3) {
                fs[0].opcode = CONT;
            }
        }
        _ => {}
    }
    fs
}

/// Interesting cut positions inside the byte stream: inside every header, extended length and key.
fn field_cuts(fs: &[CF]) -> Vec<(usize, &'static str)> {
    let mut cuts = Vec::new();
    let mut base = 0;
    for f in fs {
        let l = f.payload.len();
        let ext = if l <= 125 { 0 } else if l <= 65535 { 2 } else { 8 };
        cuts.push((base + 1, "in-header"));
        cuts.push((base + 2, "after-header"));
        for i in 1..ext {
            cuts.push((base + 2 + i, "in-extlen"));
        }
        if f.mask {
            for i in 1..4 {
                cuts.push((base + 2 + ext + i, "in-key"));
            }
        }
        if l > 1 {
            cuts.push((base + frame_len(f) - 1, "last-byte"));
        }
        base += frame_len(f);
        cuts.push((base, "frame-end"));
    }
    cuts
}

/// Positions (sorted, distinct, in 1..total) to a delivery.
fn cuts_to_delivery(mut cuts: Vec<usize>, total: usize) -> Vec<Item> {
    cuts.sort_unstable();
    cuts.dedup();
    let mut d = Vec::new();
    let mut prev = 0;
    for c in cuts {
        if c > prev && c < total {
            d.push(Item::Seg(c - prev));
            prev = c;
        }
    }
    d
}

/// Add NotYet markers to a delivery at the given byte positions (a position inside a segment splits it).
fn insert_notyet(d: &[Item], total: usize, at: &[usize]) -> Vec<Item> {
    let mut bounds: Vec<usize> = vec![];
    let mut marks: Vec<usize> = vec![];
    let mut pos = 0;
    for i in d {
        match i {
            Item::Seg(k) => {
                pos = (pos + k).min(total);
                bounds.push(pos);
            }
            Item::NotYet => marks.push(pos),
        }
    }
    for &a in at {
        marks.push(a.min(total));
        bounds.push(a.min(total));
    }
    bounds.push(total);
    bounds.retain(|b| *b > 0);
    bounds.sort_unstable();
    bounds.dedup();
    marks.sort_unstable();
    let mut out = Vec::new();
    let mut prev = 0;
    let mut mi = 0;
    for b in bounds {
        while mi < marks.len() && marks[mi] <= prev {
            out.push(Item::NotYet);
            mi += 1;
        }
        out.push(Item::Seg(b - prev));
        prev = b;
    }
    while mi < marks.len() {
        out.push(Item::NotYet);
        mi += 1;
    }
    out
}

#[derive(Clone, Copy, PartialEq)]
enum Mode {
    Blocking,
    Nonblocking,
    Mixed,
}

/// Drives the real stream, choosing the ops as it goes; returns the ops made and the output.
/// What the handler does with the messages it receives.
#[derive(Clone, Copy, PartialEq)]
enum Style {
    /// looks at them
    Plain,
    /// sends most of them straight back (the received object)
    Echo,
    /// keeps them and sends them on later, some of them more than once
    Relay,
}

fn drive(rng: &mut Rng, frames: &[CF], keep: usize, d: &[Item], mode: Mode, early_drop: bool, talk: bool, style: Style) -> (Vec<Op>, String) {
    let mut s = Session::new(events(&wire(frames, keep), d));
    let mut ops = Vec::new();
    let mut after_err = 0;
    let stop_after = if early_drop { rng.range(0, 4) as usize } else { usize::MAX };
    let mut recvs = 0;
    while ops.len() < 60 {
        if recvs >= stop_after {
            break;
        }
        let o = if talk && rng.chance(1, 6) {
            if rng.chance(1, 3) {
                Op::Ping
            } else {
                let n = *rng.pick(&[0usize, 1, 5, 125, 126, 300]);
                let t = rng.chance(1, 2);
                Op::Send(t, rand_payload(rng, n, t))
            }
        } else {
            let nb = match mode {
                Mode::Blocking => false,
                Mode::Nonblocking => true,
                Mode::Mixed => rng.chance(1, 2),
            };
            let plain = if nb { Op::RecvNb } else { Op::Recv };
            match style {
                Style::Plain => plain,
                Style::Echo => if rng.chance(4, 5) { Op::Echo(nb) } else { plain },
                Style::Relay => match rng.below(8) {
                    0..=3 => Op::Keep(nb),
                    4 => Op::Relay,
                    5 => Op::Again,
                    6 => Op::Echo(nb),
                    _ => plain,
                },
            }
        };
        let r = s.op(&o);
        let is_recv = matches!(o, Op::Recv | Op::RecvNb | Op::Echo(_) | Op::Keep(_));
        ops.push(o);
        if !is_recv {
            continue;
        }
        recvs += 1;
        if r.starts_with("E:") || r == "PANIC" {
            after_err += 1;
            // a handler normally stops here; now and then it tries once or twice more
            if after_err >= 3 || !rng.chance(1, 6) {
                break;
            }
        } else if r == "N" && s.exhausted() {
            break;
        }
    }
    // what is still kept goes out before the handler returns (also after an error or the client's Close)
    if style == Style::Relay && rng.chance(3, 4) {
        for _ in 0..s.held.len().min(8) {
            let o = if rng.chance(1, 5) { Op::Again } else { Op::Relay };
            s.op(&o);
            ops.push(o);
        }
    }
    (ops, s.finish())
}

/// Output entries, run-length forms expanded (small sessions only).
fn expand_entries(res: &str) -> Vec<String> {
    let mut v = Vec::new();
    for e in res.split(';') {
        let (k, body) = count_prefix(e);
        for _ in 0..k.min(64) {
            v.push(body.to_string());
        }
    }
    v
}

/// Which kinds of received messages were sent on (echo: read off the entry; relay: the kept messages in order).
fn count_sent_back(out: &mut Out, ops: &[Op], res: &str) {
    if !ops.iter().any(|o| matches!(o, Op::Echo(_) | Op::Relay | Op::Again)) || ops.len() > 64 {
        return;
    }
    let kind = |m: &str| -> &'static str {
        let text = m.starts_with('T');
        let body = &m[1..];
        if body.starts_with('#') {
            return if text { "sent-back:text-over-100000-bytes" } else { "sent-back:binary-over-100000-bytes" };
        }
        let p = unhex(body);
        match (text, p.is_empty(), std::str::from_utf8(&p).is_ok()) {
            (true, true, _) => "sent-back:text-empty",
            (true, _, true) => if p.iter().any(|b| *b >= 0x80) { "sent-back:text-multibyte-utf8" } else { "sent-back:text-ascii" },
            (true, _, false) => "sent-back:text-not-utf8",
            (false, true, _) => "sent-back:binary-empty",
            (false, _, true) => "sent-back:binary-utf8-payload",
            (false, _, false) => "sent-back:binary",
        }
    };
    let entries = expand_entries(res);
    let mut held: VecDeque<String> = VecDeque::new();
    for (o, e) in ops.iter().zip(entries.iter()) {
        let r = e.split('/').next().unwrap_or("");
        let is_msg = r.starts_with('T') || r.starts_with('B');
        match o {
            Op::Echo(_) if is_msg && r.ends_with(">S") => out.count(kind(&r[..r.len() - 2])),
            Op::Keep(_) if is_msg => held.push_back(r.to_string()),
            Op::Relay => {
                if let Some(m) = held.pop_front() {
                    out.count(kind(&m));
                }
            }
            Op::Again => {
                if let Some(m) = held.front() {
                    out.count(kind(m));
                }
            }
            _ => {}
        }
    }
}

fn classify(out: &mut Out, frames: &[CF], keep: usize, d: &[Item], ops: &[Op], res: &str) {
    let total: usize = frames.iter().map(frame_len).sum();
    out.count(&format!("sess:frames={}", frames.len()));
    out.count(if keep < total { "sess:end=truncated" } else if frames.iter().any(|f| f.opcode == CLOSE) { "sess:script-has-close" } else { "sess:end=eof-at-boundary" });
    if res.contains("E:ConnectionClosed") {
        out.count("sess:result=ConnectionClosed");
    }
    if res.contains("E:ReadError") {
        out.count("sess:result=ReadError");
    }
    if res.contains("E:InvalidOpcode") {
        out.count("sess:result=InvalidOpcode");
    }
    if res.contains("PANIC") {
        out.count("sess:result=PANIC");
    }
    if res.ends_with("D/8800") {
        out.count("sess:drop-sent-close");
    }
    if res.contains("N/") {
        out.count("sess:result=None");
    }
    if d.iter().any(|i| *i == Item::NotYet) {
        out.count("sess:delivery-has-notyet");
    }
    out.count(match d.iter().filter(|i| matches!(i, Item::Seg(_))).count() {
        0 => "sess:segments=1",
        1..=3 => "sess:segments=2-4",
        _ => "sess:segments>4",
    });
    if ops.iter().any(|o| matches!(o, Op::RecvNb)) {
        out.count("sess:uses-recv_nonblocking");
    }
    if ops.iter().any(|o| matches!(o, Op::Recv)) {
        out.count("sess:uses-recv");
    }
    if frames.iter().any(|f| f.payload.len() > 65535) {
        out.count("sess:has-64bit-length");
    } else if frames.iter().any(|f| f.payload.len() > 125) {
        out.count("sess:has-16bit-length");
    }
    if frames.iter().any(|f| f.opcode == PING) {
        out.count("sess:has-ping");
    }
    if ops.iter().any(|o| matches!(o, Op::Echo(_))) {
        out.count("sess:uses-echo");
    }
    if ops.iter().any(|o| matches!(o, Op::Keep(_))) {
        out.count("sess:uses-keep");
    }
    if ops.iter().any(|o| matches!(o, Op::Relay | Op::Again)) {
        out.count("sess:uses-relay");
    }
    count_sent_back(out, ops, res);
    let frag = frames.iter().any(|f| !f.fin && f.opcode <= 2);
    if frag {
        out.count("sess:has-fragmented-message");
    }
}

fn emit_session(out: &mut Out, frames: &[CF], keep: usize, d: &[Item], ops: &[Op], res: &str) {
    let fields = ["sess".to_string(), frames_text(frames), keep.to_string(), delivery_text(d), ops_text(ops)];
    let refs: Vec<&str> = fields.iter().map(|s| s.as_str()).collect();
    out.count("fn=sess");
    classify(out, frames, keep, d, ops, res);
    out.case(&refs, res, !frames.is_empty());
}

fn fixed_ops(mode: Mode, n: usize) -> Vec<Op> {
    (0..n)
        .map(|i| match mode {
            Mode::Blocking => Op::Recv,
            Mode::Nonblocking => Op::RecvNb,
            Mode::Mixed => {
                if i % 2 == 0 {
                    Op::RecvNb
                } else {
                    Op::Recv
                }
            }
        })
        .collect()
}

fn small_alphabet() -> Vec<CF> {
    let f = |fin: bool, opcode: u8, mask: bool, payload: &[u8]| CF {
        fin,
        rsv: [false; 3],
        opcode,
        mask,
        key: if mask { [0x37, 0xfa, 0x21, 0x3d] } else { [0; 4] },
        payload: payload.to_vec(),
    };
    vec![
        f(true, TEXT, true, b"a"),
        f(false, TEXT, true, b"b"),
        f(false, BIN, false, b""),
        f(false, CONT, true, b"c"),
        f(true, CONT, true, b"d"),
        f(true, PING, true, b""),
        f(true, PING, true, b"abc"),
        f(true, PONG, true, b"p"),
        f(true, CLOSE, true, b""),
        f(true, CLOSE, true, &[0x03, 0xe8]),
    ]
}

/// The frames of the small scope for operations on received messages: every kind of message a client can make the
/// server hold (text that is UTF-8, text that is not, text whose fragments end inside a character, empty, binary).
fn echo_alphabet() -> Vec<CF> {
    let f = |fin: bool, opcode: u8, mask: bool, payload: &[u8]| CF {
        fin,
        rsv: [false; 3],
        opcode,
        mask,
        key: if mask { [0x37, 0xfa, 0x21, 0x3d] } else { [0; 4] },
        payload: payload.to_vec(),
    };
    vec![
        f(true, TEXT, true, b"a"),
        f(true, TEXT, true, &[0xe9]),       // a Latin-1 letter: not UTF-8
        f(true, TEXT, false, &[0xc3, 0xa9]), // the same letter in UTF-8
        f(true, TEXT, true, &[0xe2, 0x82]), // a three-byte character without its last byte
        f(true, TEXT, true, b""),
        f(false, TEXT, true, &[0xc3]),      // a first fragment that ends inside a character
        f(false, TEXT, true, b""),
        f(true, CONT, true, &[0xa9]),       // completes the character
        f(true, CONT, true, &[0xff]),
        f(false, CONT, false, &[0xe2]),
        f(true, BIN, true, &[0xc3, 0xa9]),  // binary message whose payload happens to be UTF-8
        f(true, BIN, true, &[0xff]),
        f(true, BIN, false, b""),
        f(false, BIN, true, b"a"),
        f(true, PING, true, b"p"),
        f(true, CLOSE, true, b""),
    ]
}

/// Small scope, complete: every script of up to 3 frames over `echo_alphabet`, with handlers that send received
/// messages back (echo), blocking and non-blocking, and (up to 2 frames; thorough: 3) handlers that keep the messages
/// and send them on later, once and twice, delivered whole and byte-wise.
fn gen_echo_scope(out: &mut Out, thorough: bool) {
    let alpha = echo_alphabet();
    let mut scripts: Vec<Vec<CF>> = vec![];
    for a in &alpha {
        scripts.push(vec![a.clone()]);
        for b in &alpha {
            scripts.push(vec![a.clone(), b.clone()]);
            for c in &alpha {
                scripts.push(vec![a.clone(), b.clone(), c.clone()]);
            }
        }
    }
    let rep = |o: &[Op], n: usize| -> Vec<Op> { (0..n).flat_map(|_| o.iter().cloned()).collect() };
    for fs in &scripts {
        let total: usize = fs.iter().map(frame_len).sum();
        let n = fs.len() + 2;
        let mut patterns: Vec<Vec<Op>> = vec![rep(&[Op::Echo(false)], n), rep(&[Op::Echo(true)], n)];
        let full = fs.len() <= 2 || thorough;
        if full {
            // keep everything, then every kept message twice (a clone, then the object itself)
            let mut p = rep(&[Op::Keep(false)], n);
            p.extend(rep(&[Op::Again, Op::Relay], fs.len() + 1));
            patterns.push(p);
            patterns.push(rep(&[Op::Keep(true), Op::Again, Op::Relay], n));
            // echo and plain receive alternating, both modes
            patterns.push(rep(&[Op::Echo(true), Op::Recv, Op::Echo(false), Op::RecvNb], (n + 1) / 2));
        }
        for ops in &patterns {
            let whole: Vec<Item> = vec![];
            let r = run_session(fs, total, &whole, ops);
            out.count("echo-scope:whole");
            emit_session(out, fs, total, &whole, ops, &r);
            if full {
                let bytewise: Vec<Item> = (1..total).map(|_| Item::Seg(1)).collect();
                let r = run_session(fs, total, &bytewise, ops);
                out.count("echo-scope:byte-wise");
                emit_session(out, fs, total, &bytewise, ops, &r);
            }
        }
        if fs.len() <= 2 {
            // the last byte never arrives; a pause before every frame
            for ops in &patterns[..2] {
                let r = run_session(fs, total - 1, &[], ops);
                out.count("echo-scope:truncated");
                emit_session(out, fs, total - 1, &[], ops, &r);
            }
            let mut at = vec![0usize];
            let mut pos = 0;
            for f in fs.iter() {
                pos += frame_len(f);
                at.push(pos);
            }
            let d = insert_notyet(&[], total, &at);
            let ops = rep(&[Op::Echo(true)], n + at.len());
            let r = run_session(fs, total, &d, &ops);
            out.count("echo-scope:pauses");
            emit_session(out, fs, total, &d, &ops, &r);
        }
    }
}

fn gen_handshakes(out: &mut Out, rng: &mut Rng, n: usize) {
    let names = ["Sec-WebSocket-Key", "sec-websocket-key", "SEC-WEBSOCKET-KEY", "Sec-Websocket-Key"];
    let mut run = |out: &mut Out, hs: Vec<(String, String)>, tag: &str| {
        let r = run_handshake(&hs);
        let fields = ["hs".to_string(), headers_text(&hs)];
        let refs: Vec<&str> = fields.iter().map(|s| s.as_str()).collect();
        out.count("fn=hs");
        out.count(&format!("hs:{}:{}", tag, if r.starts_with("U/") { "upgraded" } else if r.starts_with("X/") { "not-upgraded" } else { "other" }));
        out.case(&refs, &r, true);
    };
    let others = |rng: &mut Rng| -> Vec<(String, String)> {
        let mut v = vec![];
        if rng.chance(2, 3) {
            v.push(("Host".to_string(), "example.com".to_string()));
        }
        if rng.chance(2, 3) {
            v.push(("Upgrade".to_string(), "websocket".to_string()));
            v.push(("Connection".to_string(), "Upgrade".to_string()));
        }
        if rng.chance(1, 2) {
            v.push(("Sec-WebSocket-Version".to_string(), "13".to_string()));
        }
        if rng.chance(1, 4) {
            v.push(("Sec-WebSocket-Protocol".to_string(), "chat".to_string()));
        }
        v
    };
    // the RFC's own example, the empty key, no key at all
    run(out, vec![("Sec-WebSocket-Key".into(), "dGhlIHNhbXBsZSBub25jZQ==".into())], "rfc-example");
    run(out, vec![("Sec-WebSocket-Key".into(), "".into())], "empty-key");
    run(out, vec![], "no-headers");
    run(out, vec![("Upgrade".into(), "websocket".into()), ("Connection".into(), "Upgrade".into())], "no-key");
    run(out, vec![("Sec-WebSocket-Key1".into(), "x".into()), ("Sec-WebSocket-Ke".into(), "y".into())], "no-key");
    // every printable ASCII character as a one-character key, and inside a longer key
    for c in 0x20u8..0x7f {
        run(out, vec![("Sec-WebSocket-Key".into(), (c as char).to_string())], "one-char-key");
        run(out, vec![("Sec-WebSocket-Key".into(), format!("AQIDBAUGBwgJ{}CgsMDQ4PEC==", c as char))], "char-in-key");
    }
    // key lengths around the SHA-1 block boundaries (key + 36-byte GUID): 55/56/64 byte messages
    for len in 0..=140usize {
        let key: String = (0..len).map(|_| (b' ' + rng.below(95) as u8) as char).collect();
        run(out, vec![("Sec-WebSocket-Key".into(), key)], "key-length-sweep");
    }
    for _ in 0..n {
        let mut hs = others(rng);
        let kind = rng.below(10);
        let len = match rng.below(6) {
            0 => 24,
            1 => rng.range(0, 3) as usize,
            2 => rng.range(100, 400) as usize,
            3 => rng.range(1000, 5000) as usize,
            _ => rng.range(4, 64) as usize,
        };
        let key: String = if rng.chance(1, 2) {
            // a genuine client key: Base64 of 16 random bytes
            use humphrey_ws::verif::Base64Encode;
            rng.bytes(16).encode()
        } else if rng.chance(1, 6) {
            // printable non-ASCII
            (0..len.min(200)).map(|_| *rng.pick(&['é', 'ß', '中', '✓', 'a', ' '])).collect()
        } else {
            (0..len).map(|_| (b' ' + rng.below(95) as u8) as char).collect()
        };
        let at = rng.below(hs.len() as u64 + 1) as usize;
        match kind {
            0 => {
                run(out, hs, "absent");
                continue;
            }
            1 => {
                // two key headers: the first one counts
                hs.insert(at, (rng.pick(&names).to_string(), key));
                let at2 = rng.below(hs.len() as u64 + 1) as usize;
                hs.insert(at2, (rng.pick(&names).to_string(), "c2Vjb25kIGtleSBoZWFkZXI=".to_string()));
                run(out, hs, "two-keys");
            }
            _ => {
                hs.insert(at, (rng.pick(&names).to_string(), key));
                run(out, hs, "key");
            }
        }
    }
}

/* ---------------------------------------------------------------- sizes, counts and histories well above small */

/// Counts around powers of two and typical limits. Quick: the three decades; thorough: the sweep.
fn sweep(thorough: bool, quick: &[usize], more: &[usize]) -> Vec<usize> {
    let mut v: Vec<usize> = quick.to_vec();
    if thorough {
        v.extend_from_slice(more);
    }
    v.sort_unstable();
    v.dedup();
    v
}

fn ftext(fin: bool, opcode: u8, mask: bool, key: &str, payload: &str) -> String {
    format!("{}.000.{}.{}.{}.{}", bit(fin), opcode, bit(mask), if mask { key } else { "00000000" }, payload)
}

/// Number of bytes a frame script puts on the wire.
fn script_wire_len(frames: &str) -> usize {
    parse_frames(frames).map(|fs| fs.iter().map(frame_len).sum()).unwrap_or(0)
}

/// The large-scale family, as case fields with a tag for the statistics (`sess` cases in the run-length forms):
/// floods of control frames before a message, between its fragments, alternating with its fragments, before a Close and
/// with nothing after; messages of very many fragments; very many messages on one connection (the same stream object
/// used again and again, receiving, polling, echoing); payload lengths at the 7/16/64-bit boundaries and far above.
/// Everything is derived from sweeps, nothing from a particular defect.
pub fn scale_cases(thorough: bool, seed: u64) -> Vec<(String, Vec<String>)> {
    let mut rng = Rng::new(seed ^ 0x5CA1E);
    let mut v: Vec<(String, Vec<String>)> = Vec::new();
    // `short`: how many bytes of the stream do not arrive (0 = EOF at the end of the script)
    let mut add = |tag: String, frames: String, short: usize, delivery: String, ops: String| {
        let keep = script_wire_len(&frames).saturating_sub(short);
        v.push((tag, vec!["sess".into(), frames, keep.to_string(), delivery, ops]));
    };
    let newkey = |rng: &mut Rng| hex(&rand_key(rng));

    // ---- A. floods of control frames
    let flood_counts = sweep(thorough, &[1_000, 20_000, 200_000], &[100, 128, 255, 256, 257, 1_024, 4_096, 8_192, 12_000, 50_000, 65_536, 100_000, 1_000_000]);
    let mut idx = 0usize;
    for &n in &flood_counts {
        for (op, opname) in [(PING, "ping"), (PONG, "pong")] {
            for mask in [false, true] {
                let key = newkey(&mut rng);
                // the control frame: empty, or (smaller floods) with a payload that the Pong must mirror
                let payloads: Vec<String> = if n <= 20_000 { vec!["".into(), hex(&rng.bytes(1 + (idx % 7))), hex(&vec![0x70u8; 125])] } else { vec!["".into()] };
                for pl in &payloads {
                    if pl.len() == 250 && n > 1_024 {
                        continue;
                    }
                    let ctl = ftext(true, op, mask, &key, pl);
                    let clen = 2 + if mask { 4 } else { 0 } + pl.len() / 2;
                    let msg = ftext(true, if idx % 2 == 0 { TEXT } else { BIN }, true, &key, "6869");
                    let first = ftext(false, BIN, true, &key, "01");
                    let cont = ftext(false, CONT, true, &key, "62");
                    let last = ftext(true, CONT, idx % 3 != 0, &key, "0203");
                    let close = ftext(true, CLOSE, true, &key, "03e8");
                    // (position, frames, ops per mode)
                    let mut shapes: Vec<(&str, String, usize)> = vec![
                        ("before-message", format!("{}*{},{}", n, ctl, msg), 2),
                        ("between-fragments", format!("{},{}*{},{}", first, n, ctl, last), 2),
                        ("nothing-after", format!("{}*{}", n, ctl), 1),
                        ("before-close", format!("{}*{},{}", n, ctl, close), 1),
                        ("after-message", format!("{},{}*{}", msg, n, ctl), 2),
                    ];
                    if n <= 20_000 && pl.is_empty() {
                        // alternating with the fragments of one message
                        shapes.push(("alternating-with-fragments", format!("{},{}*{}+{},{}", first, n, ctl, cont, last), 2));
                    }
                    for (shape_i, (pos, frames, nops)) in shapes.into_iter().enumerate() {
                        // the million-frame floods: one shape per opcode and mask
                        if n > 200_000 && pos != "before-message" && pos != "nothing-after" {
                            continue;
                        }
                        for mode in ["r", "n"] {
                            idx += 1;
                            if n >= 200_000 && mode == "n" && (shape_i + (mask as usize)) % 2 == 1 {
                                continue;
                            }
                            let delivery = match idx % 5 {
                                0 | 1 => "-".to_string(),
                                2 => format!("{}*{}", n, clen), // roughly frame by frame
                                3 => format!("{}*4096", (n * clen) / 4096 + 1),
                                _ => {
                                    if n <= 20_000 { format!("{}*1", n * clen) } else { format!("{}*1460", (n * clen) / 1460 + 1) }
                                }
                            };
                            // now and then the last byte never arrives
                            let short = if idx % 11 == 0 { 1 } else { 0 };
                            add(format!("flood:{}|flood:n={}|flood:{}", opname, n, pos), frames.clone(), short, delivery, format!("{}*{}", nops, mode));
                        }
                    }
                }
            }
        }
    }

    // ---- B. messages of very many fragments
    let frag_counts = sweep(thorough, &[100, 1_000, 10_000], &[128, 255, 256, 257, 1_024, 4_096, 8_192, 20_000]);
    for &n in &frag_counts {
        for (k, piece) in ["62", "", "e282ac", "g300s5"].iter().enumerate() {
            if *piece == "g300s5" && n > 1_024 {
                continue;
            }
            for mode in ["r", "n"] {
                let key = newkey(&mut rng);
                let op = if k % 2 == 0 { TEXT } else { BIN };
                let mask = (k + n) % 3 != 0;
                let frames = format!("{},{}*{},{}", ftext(false, op, mask, &key, piece), n.saturating_sub(2), ftext(false, CONT, mask, &key, piece), ftext(true, CONT, mask, &key, piece));
                let delivery = match k { 0 => "-".to_string(), 1 => format!("{}*{}", n, 2 + if mask { 4 } else { 0 }), 2 => format!("{}*4096", n / 400 + 1), _ => "-".to_string() };
                add(format!("fragments:n={}", n), frames, 0, delivery, format!("2*{}", mode));
            }
        }
    }

    // ---- C. very many messages on one connection
    let msg_counts = sweep(thorough, &[100, 1_000, 10_000], &[128, 255, 256, 257, 1_024, 4_096, 8_192, 20_000]);
    for &n in &msg_counts {
        let key = newkey(&mut rng);
        let msg = ftext(true, TEXT, true, &key, "6869");
        let bin = ftext(true, BIN, false, &key, &hex(&rng.bytes(3)));
        let ping = ftext(true, PING, true, &key, "70");
        let pong = ftext(true, PONG, true, &key, "");
        let frag = ftext(false, BIN, true, &key, "0102");
        let fin = ftext(true, CONT, true, &key, "03");
        let close = ftext(true, CLOSE, true, &key, "");
        let shapes: Vec<(&str, String, usize)> = vec![
            ("same-message", format!("{}*{}", n, msg), 8),
            ("two-kinds", format!("{}*{}+{}", n / 2, msg, bin), 8 + 5),
            ("message-then-ping", format!("{}*{}+{}", n, msg, ping), 8 + 7),
            ("pong-then-message", format!("{}*{}+{}", n, pong, bin), 6 + 5),
            ("fragmented-messages", format!("{}*{}+{},{}", n / 2, frag, fin, close), 8 + 7),
            ("messages-then-close", format!("{}*{},{}", n, msg, close), 8),
        ];
        for (si, (shape, frames, unit)) in shapes.into_iter().enumerate() {
            for mode in ["r", "n", "r+n"] {
                if mode == "r+n" && n > 4_096 {
                    continue;
                }
                // quick tier: the largest count with two of the shapes only
                if !thorough && n > 1_024 && shape != "same-message" && shape != "message-then-ping" {
                    continue;
                }
                let calls = n + 2;
                let ops = if mode == "r+n" { format!("{}*r+n", calls / 2 + 1) } else { format!("{}*{}", calls, mode) };
                // whole, or (up to 1 024 messages) message by message with a pause after each
                let delivery = if n <= 1_024 && (si + n) % 2 == 0 { format!("{}*{}+n", n, unit) } else { "-".to_string() };
                add(format!("messages:n={}|messages:{}", n, shape), frames.clone(), 0, delivery, ops);
            }
        }
        // an echo handler: every message is sent back (send and receive alternate on the same stream object)
        if n <= 1_024 || (thorough && n <= 10_000) {
            add(format!("messages:n={}|messages:echo", n), format!("{}*{}", n, msg), 0, "-".into(), format!("{}*r+s16869,r", n));
            add(format!("messages:n={}|messages:echo", n), format!("{}*{}+{}", n, msg, ping), 0, "-".into(), format!("{}*n+s0{}+p,n", n, hex(&rng.bytes(2))));
        }
    }

    // ---- D. payload lengths: the 7/16/64-bit boundaries, powers of two, and far above
    let lens = sweep(thorough, &[125, 126, 127, 65_535, 65_536, 65_537, 100_000, 100_001, 262_144, 1 << 20],
                     &[128, 255, 256, 257, 1_000, 1_024, 4_095, 4_096, 4_097, 8_192, 16_384, 32_768, 131_072, 262_143, 262_145, 524_288, (1 << 20) + 1, 2 << 20, 3_000_000, 4 << 20]);
    for &l in &lens {
        for mask in [true, false] {
            for mode in ["r", "n"] {
                let key = newkey(&mut rng);
                let sd = rng.below(256);
                let whole = ftext(true, if mask { BIN } else { TEXT }, mask, &key, &format!("g{}s{}", l, sd));
                let ext = if l <= 125 { 0 } else if l <= 65_535 { 2 } else { 8 };
                let hdr = 2 + ext + if mask { 4 } else { 0 };
                for (di, delivery) in ["-".to_string(), format!("{},{}*4096", hdr, l / 4096 + 1), format!("1,{}*1460", l / 1460 + 2), format!("{}*65536", l / 65536 + 1)].iter().enumerate() {
                    if (di == 1 || di == 3) && l < 4_096 {
                        continue;
                    }
                    if di >= 2 && mode == "n" && l > (1 << 20) {
                        continue;
                    }
                    // quick tier: the largest payloads whole and in 4 096-byte segments, non-blocking whole only
                    if !thorough && l >= 262_144 && (di >= 2 || (di == 1 && mode == "n")) {
                        continue;
                    }
                    add(format!("payload:len={}", l), whole.clone(), 0, delivery.clone(), format!("2*{}", mode));
                }
                // as the first of two fragments, a control frame between them; and as the second fragment
                let tail = ftext(true, CONT, true, &key, "0102");
                let head = ftext(false, TEXT, true, &key, "68");
                let part = ftext(false, BIN, mask, &key, &format!("g{}s{}", l, sd));
                let partfin = ftext(true, CONT, mask, &key, &format!("g{}s{}", l, sd));
                let ping = ftext(true, PING, true, &key, "7069");
                if !thorough && l >= 262_144 && (mode == "n") != mask {
                    continue;
                }
                add(format!("payload:len={}", l), format!("{},{},{}", part, ping, tail), 0, "-".into(), format!("2*{}", mode));
                add(format!("payload:len={}", l), format!("{},{}", head, partfin), if mask { 0 } else { 1 }, format!("{}*8192", l / 8192 + 1), format!("2*{}", mode));
            }
        }
    }
    // several large messages one after the other on the same connection
    for (n, l) in [(8usize, 65_536usize), (4, 262_144), (3, 1 << 20)] {
        let key = newkey(&mut rng);
        add(format!("payload:len={}", l), format!("{}*{}", n, ftext(true, BIN, true, &key, &format!("g{}s3", l))), 0, "-".into(), format!("{}*r", n + 1));
    }

    // ---- E. received messages sent on: echo (`e` blocking, `f` non-blocking), keep and relay, at the same counts and lengths
    // the kinds of message a client can make the server hold
    let kinds = |key: &str| -> Vec<String> {
        vec![
            ftext(true, TEXT, true, key, "6869"),        // text, ASCII
            ftext(true, TEXT, true, key, "63e974e9"),    // text in Latin-1: not UTF-8
            ftext(true, BIN, true, key, "c3a9"),         // binary whose payload is UTF-8
            ftext(true, TEXT, false, key, ""),           // empty text
            ftext(true, TEXT, true, key, "e282ac"),      // text, one three-byte character
            ftext(true, TEXT, true, key, "61e282"),      // text that ends inside a character
            ftext(true, BIN, false, key, "00ff"),        // binary
        ]
    };
    let echo_counts = sweep(thorough, &[100, 1_000, 7_000], &[128, 255, 256, 257, 1_024, 4_096, 8_192, 14_000]);
    for &n in &echo_counts {
        let key = newkey(&mut rng);
        let ks = kinds(&key);
        let group = ks.join("+");
        let per = ks.len();
        let unit: usize = ks.iter().map(|k| script_wire_len(k)).sum();
        let ping = ftext(true, PING, true, &key, "7069");
        let close = ftext(true, CLOSE, true, &key, "03e8");
        // a character cut at both fragment boundaries (the message is UTF-8); the same without its last byte (it is not)
        let cut_ok = format!("{}+{}+{}", ftext(false, TEXT, true, &key, "e2"), ftext(false, CONT, true, &key, "82"), ftext(true, CONT, true, &key, "ac41"));
        let cut_bad = format!("{}+{}", ftext(false, TEXT, true, &key, "41e2"), ftext(true, CONT, true, &key, "82"));
        let reps = n / per;
        for (mi, mode) in ["e", "f"].iter().enumerate() {
            if !thorough && n > 1_024 && mi == 1 {
                continue;
            }
            let pause = n <= 1_024 && (mi + n) % 2 == 0;
            add(format!("echo:n={}|echo:all-kinds", n), format!("{}*{}", reps, group), 0, if pause { format!("{}*{}+n", reps, unit) } else { "-".into() }, format!("{}*{}", reps * per + 2, mode));
            add(format!("echo:n={}|echo:all-kinds-then-close", n), format!("{}*{},{}", reps, group, close), 0, "-".into(), format!("{}*{}", reps * per + 2, mode));
            add(format!("echo:n={}|echo:not-utf8-text-then-ping", n), format!("{}*{}+{}", n / 2, ks[1], ping), 0, "-".into(), format!("{}*{}", n / 2 + 1, mode));
            add(format!("echo:n={}|echo:character-cut-between-fragments", n), format!("{}*{}+{}", n / 2, cut_ok, cut_bad), if mi == 0 { 0 } else { 1 }, format!("{}*4096", n / 100 + 1), format!("{}*{}", n + 1, mode));
            // echo and plain receive taking turns on the same stream object
            add(format!("echo:n={}|echo:alternating-with-recv", n), format!("{}*{}", reps, group), 0, "-".into(), format!("{}*{}+{}", (reps * per) / 2 + 1, mode, if mi == 0 { "n" } else { "r" }));
        }
        // store and forward: everything is kept, then sent on (a clone first, then the object)
        if n <= 1_024 || thorough {
            for (keepop, tail) in [("k", "q"), ("j", "c+q")] {
                add(format!("echo:n={}|echo:keep-then-relay", n), format!("{}*{}", reps, group), 0, "-".into(), format!("{}*{},{}*{},q", reps * per + 1, keepop, reps * per, tail));
            }
            // a relay that is one message behind
            add(format!("echo:n={}|echo:relay-one-behind", n), format!("{}*{}", reps, group), 0, "-".into(), format!("k,{}*k+q,q,q", reps * per));
        }
    }
    // one message of many fragments, every character cut, sent back
    for &n in &sweep(thorough, &[100, 1_000, 9_999], &[128, 255, 256, 257, 1_024, 4_096, 8_192, 20_000]) {
        for (mi, mode) in ["e", "f"].iter().enumerate() {
            let key = newkey(&mut rng);
            let triple = format!("{}+{}+{}", ftext(false, CONT, true, &key, "82"), ftext(false, CONT, true, &key, "ac"), ftext(false, CONT, true, &key, "e2"));
            for (ending, what) in [("82ac", "utf8"), ("82", "not-utf8"), ("", "not-utf8")] {
                if mi == 1 && ending.is_empty() {
                    continue;
                }
                let frames = format!("{},{}*{},{}", ftext(false, TEXT, true, &key, "e2"), n / 3, triple, ftext(true, CONT, true, &key, ending));
                add(format!("echo:fragments={}|echo:fragmented-{}", n, what), frames, 0, if mi == 0 { "-".into() } else { format!("{}*7", n) }, format!("2*{}", mode));
            }
        }
    }
    // payload lengths: ASCII text, multi-byte text that is / is not UTF-8 as a whole, arbitrary bytes flagged as text, binary
    let utf8_seed = |l: usize, valid: bool| -> usize {
        let probe = l % 10 + 10;
        (0..10).find(|s| std::str::from_utf8(&gen_utf8(probe, *s)).is_ok() == valid).unwrap_or(0)
    };
    let echo_lens = sweep(thorough, &[125, 126, 127, 65_535, 65_536, 65_537, 100_000, 100_001, 1 << 20],
                          &[0, 1, 128, 255, 256, 257, 1_000, 1_024, 4_095, 4_096, 4_097, 8_192, 16_384, 32_768, 131_072, 262_144, 524_288, (1 << 20) + 1, 2 << 20, 4 << 20]);
    for (li, &l) in echo_lens.iter().enumerate() {
        let key = newkey(&mut rng);
        let sd = rng.below(95) as usize;
        let variants: Vec<(&str, u8, String)> = vec![
            ("text-ascii", TEXT, format!("t{}s{}", l, sd)),
            ("text-multibyte-utf8", TEXT, format!("u{}s{}", l, utf8_seed(l, true))),
            ("text-multibyte-not-utf8", TEXT, format!("u{}s{}", l, utf8_seed(l, false))),
            ("text-arbitrary-bytes", TEXT, format!("g{}s{}", l, sd)),
            ("binary-ascii", BIN, format!("t{}s{}", l, sd)),
        ];
        for (vi, (what, op, pl)) in variants.iter().enumerate() {
            if l == 0 && vi > 0 && vi < 4 {
                continue;
            }
            let mode = if (vi + li) % 2 == 0 { "e" } else { "f" };
            let mask = (vi + li) % 3 != 0;
            let whole = ftext(true, *op, mask, &key, pl);
            let delivery = if l >= 4_096 && (vi + li) % 4 == 1 { format!("{}*4096", l / 4096 + 1) } else { "-".to_string() };
            add(format!("echo:len={}|echo:{}", l, what), whole, 0, delivery, format!("2*{}", mode));
            // the same payload in two fragments (the cut falls where it falls), a Ping between them, the other mode
            if (thorough || l <= 65_537) && l >= 2 && vi >= 1 && vi <= 3 {
                let other = if mode == "e" { "f" } else { "e" };
                let (a, b) = (l / 2, l - l / 2);
                let (head, tail) = match pl.as_bytes()[0] {
                    b'u' => { let s0: usize = pl.split('s').nth(1).unwrap().parse().unwrap(); (format!("u{}s{}", a, s0), format!("u{}s{}", b, (s0 + a) % 10)) }
                    _ => (format!("g{}s{}", a, sd), format!("g{}s{}", b, sd + 1)),
                };
                let frames = format!("{},{},{}", ftext(false, *op, mask, &key, &head), ftext(true, PING, true, &key, "70"), ftext(true, CONT, true, &key, &tail));
                add(format!("echo:len={}|echo:{}-two-fragments", l, what), frames, 0, "-".into(), format!("2*{}", other));
            }
        }
    }
    v
}

/// Runs the large-scale family in worker processes (a few at a time) and returns the outputs.
pub fn run_scale(cases: &[(String, Vec<String>)]) -> Vec<String> {
    let fields: Vec<Vec<String>> = cases.iter().map(|c| c.1.clone()).collect();
    let nthreads = 8usize;
    // dealt round-robin: neighbours are of similar size
    let mut parts: Vec<Vec<(usize, Vec<String>)>> = vec![Vec::new(); nthreads];
    for (i, f) in fields.into_iter().enumerate() {
        parts[i % nthreads].push((i, f));
    }
    let handles: Vec<_> = parts
        .into_iter()
        .map(|part| {
            std::thread::spawn(move || {
                let fs: Vec<Vec<String>> = part.iter().map(|p| p.1.clone()).collect();
                let rs = crate::worker::run_cases("C11", &fs, SCALE_WATCHDOG);
                part.iter().map(|p| p.0).zip(rs.into_iter()).collect::<Vec<_>>()
            })
        })
        .collect();
    let mut res = vec![String::new(); cases.len()];
    for h in handles {
        for (i, r) in h.join().unwrap() {
            res[i] = r;
        }
    }
    res
}

pub fn gen(out: &mut Out, thorough: bool, seed: u64) {
    let mut rng = Rng::new(seed ^ 0xC11);
    gen_handshakes(out, &mut rng, if thorough { 6000 } else { 1500 });

    // ---- exhaustive small scope: every script of up to 3 frames over a 10-frame alphabet, blocking and
    // non-blocking, delivered whole, byte by byte, and (non-blocking) with a NotYet at every byte position
    let alpha = small_alphabet();
    let mut scripts: Vec<Vec<CF>> = vec![vec![]];
    for a in &alpha {
        scripts.push(vec![a.clone()]);
        for b in &alpha {
            scripts.push(vec![a.clone(), b.clone()]);
            for c in &alpha {
                scripts.push(vec![a.clone(), b.clone(), c.clone()]);
            }
        }
    }
    for fs in &scripts {
        let total: usize = fs.iter().map(frame_len).sum();
        let n_ops = fs.len() + 2;
        for mode in [Mode::Blocking, Mode::Nonblocking] {
            let ops = fixed_ops(mode, n_ops);
            let whole: Vec<Item> = vec![];
            let r = run_session(fs, total, &whole, &ops);
            emit_session(out, fs, total, &whole, &ops, &r);
            if fs.len() <= 2 || thorough {
                let bytewise: Vec<Item> = (1..total).map(|_| Item::Seg(1)).collect();
                let r = run_session(fs, total, &bytewise, &ops);
                emit_session(out, fs, total, &bytewise, &ops, &r);
            }
        }
        if fs.len() <= 2 {
            // a NotYet before every byte position (and at the end), whole segments around it
            for p in 0..=total {
                let d = insert_notyet(&[], total, &[p]);
                let ops = fixed_ops(Mode::Nonblocking, n_ops + 1);
                let r = run_session(fs, total, &d, &ops);
                emit_session(out, fs, total, &d, &ops, &r);
            }
            // every truncation point, both modes
            for keep in 0..total {
                for mode in [Mode::Blocking, Mode::Nonblocking] {
                    let ops = fixed_ops(mode, n_ops);
                    let r = run_session(fs, keep, &[], &ops);
                    emit_session(out, fs, keep, &[], &ops, &r);
                }
            }
        }
    }
    // byte-wise delivery with a NotYet between all bytes
    for fs in scripts.iter().filter(|s| s.len() == 2) {
        let total: usize = fs.iter().map(frame_len).sum();
        let mut d = vec![Item::NotYet];
        for _ in 0..total {
            d.push(Item::Seg(1));
            d.push(Item::NotYet);
        }
        let ops = fixed_ops(Mode::Nonblocking, 2 * total + 6);
        let r = run_session(fs, total, &d, &ops);
        emit_session(out, fs, total, &d, &ops, &r);
    }

    // ---- received messages sent on (echo, keep and relay): small scope
    gen_echo_scope(out, thorough);

    // ---- random client scripts (HV_C11_RANDOM=0 leaves them out: used once to look at the small scope alone)
    let n = if std::env::var("HV_C11_RANDOM").map(|v| v == "0").unwrap_or(false) { 0 } else if thorough { 60000 } else { 7000 };
    for i in 0..n {
        let allow_big = i % 12 == 0;
        let fs = gen_script(&mut rng, allow_big);
        let total: usize = fs.iter().map(frame_len).sum();
        // ending: complete stream, or abrupt disconnect somewhere
        let keep = match rng.below(10) {
            0 => rng.below(total as u64 + 1) as usize,
            1 => {
                // inside a header / length / key of some frame
                let cuts = field_cuts(&fs);
                cuts[rng.below(cuts.len() as u64) as usize].0.min(total)
            }
            _ => total,
        };
        let cuts = field_cuts(&fs);
        let kind = rng.below(8);
        let mut d: Vec<Item> = match kind {
            0 => vec![],
            1 if keep <= 600 => (1..keep).map(|_| Item::Seg(1)).collect(),
            2 => cuts_to_delivery(cuts.iter().filter(|c| c.1 == "in-header").map(|c| c.0).collect(), keep),
            3 => cuts_to_delivery(cuts.iter().filter(|c| c.1 == "in-extlen" || c.1 == "in-key").map(|c| c.0).collect(), keep),
            4 => cuts_to_delivery(cuts.iter().filter(|c| c.1 == "frame-end").map(|c| c.0).collect(), keep),
            5 => cuts_to_delivery(cuts.iter().filter(|_| rng.chance(1, 3)).map(|c| c.0).collect(), keep),
            _ => {
                let k = rng.range(1, 8);
                cuts_to_delivery((0..k).map(|_| rng.range(0, keep as u64) as usize).collect(), keep)
            }
        };
        out.count(match kind {
            0 => "delivery:whole",
            1 => "delivery:byte-wise",
            2 => "delivery:split-in-every-header",
            3 => "delivery:split-in-extlen-and-key",
            4 => "delivery:frame-by-frame",
            5 => "delivery:random-field-cuts",
            _ => "delivery:random-cuts",
        });
        let mode = match rng.below(3) {
            0 => Mode::Blocking,
            1 => Mode::Nonblocking,
            _ => Mode::Mixed,
        };
        if mode != Mode::Blocking || rng.chance(1, 4) {
            // NotYet markers: at frame starts, one byte into a header, anywhere
            let k = rng.range(0, 5) as usize;
            let at: Vec<usize> = (0..k)
                .map(|_| match rng.below(4) {
                    0 => 0,
                    1 => cuts[rng.below(cuts.len() as u64) as usize].0.min(keep),
                    2 => keep,
                    _ => rng.range(0, keep as u64) as usize,
                })
                .collect();
            d = insert_notyet(&d, keep, &at);
        }
        let early_drop = rng.chance(1, 8);
        let talk = rng.chance(1, 5);
        let style = match rng.below(20) {
            0..=10 => Style::Plain,
            11..=16 => Style::Echo,
            _ => Style::Relay,
        };
        let (ops, r) = drive(&mut rng, &fs, keep, &d, mode, early_drop, talk, style);
        if early_drop {
            out.count("sess:end=server-drop");
        }
        emit_session(out, &fs, keep, &d, &ops, &r);
    }

    // ---- sizes, counts and histories well above small (worker processes; see `scale_cases`)
    let scale = scale_cases(thorough, seed);
    let results = run_scale(&scale);
    for ((tag, fields), r) in scale.iter().zip(results.iter()) {
        let refs: Vec<&str> = fields.iter().map(|s| s.as_str()).collect();
        out.count("fn=sess");
        for t in tag.split('|') {
            out.count(&format!("scale:{}", t));
        }
        out.count(&format!("scale:result={}", if r == "ABORT" || r == "TIMEOUT" || r == "UNSUPPORTED" { r.as_str() } else if r.contains("PANIC") { "PANIC" } else { "ran" }));
        out.case(&refs, r, true);
    }
}
