//! Counting global allocator: bytes currently allocated and the peak since the last reset.
use std::alloc::{GlobalAlloc, Layout, System};
use std::sync::atomic::{AtomicUsize, Ordering};

pub struct Counting;

pub static CURRENT: AtomicUsize = AtomicUsize::new(0);
pub static PEAK: AtomicUsize = AtomicUsize::new(0);

unsafe impl GlobalAlloc for Counting {
    unsafe fn alloc(&self, layout: Layout) -> *mut u8 {
        let p = System.alloc(layout);
        if !p.is_null() {
            let now = CURRENT.fetch_add(layout.size(), Ordering::Relaxed) + layout.size();
            PEAK.fetch_max(now, Ordering::Relaxed);
        }
        p
    }
    unsafe fn alloc_zeroed(&self, layout: Layout) -> *mut u8 {
        let p = System.alloc_zeroed(layout);
        if !p.is_null() {
            let now = CURRENT.fetch_add(layout.size(), Ordering::Relaxed) + layout.size();
            PEAK.fetch_max(now, Ordering::Relaxed);
        }
        p
    }
    unsafe fn dealloc(&self, ptr: *mut u8, layout: Layout) {
        System.dealloc(ptr, layout);
        CURRENT.fetch_sub(layout.size(), Ordering::Relaxed);
    }
    unsafe fn realloc(&self, ptr: *mut u8, layout: Layout, new_size: usize) -> *mut u8 {
        let p = System.realloc(ptr, layout, new_size);
        if !p.is_null() {
            if new_size >= layout.size() {
                let now = CURRENT.fetch_add(new_size - layout.size(), Ordering::Relaxed) + (new_size - layout.size());
                PEAK.fetch_max(now, Ordering::Relaxed);
            } else {
                CURRENT.fetch_sub(layout.size() - new_size, Ordering::Relaxed);
            }
        }
        p
    }
}

/// Start measuring: returns the baseline.
pub fn begin() -> usize {
    let cur = CURRENT.load(Ordering::Relaxed);
    PEAK.store(cur, Ordering::Relaxed);
    cur
}

/// Peak number of bytes allocated above the baseline since `begin`.
pub fn peak_since(baseline: usize) -> usize {
    PEAK.load(Ordering::Relaxed).saturating_sub(baseline)
}

extern "C" {
    fn setrlimit(resource: i32, rlim: *const [u64; 2]) -> i32;
}

/// Limit the address space of this process (RLIMIT_AS = 9 on Linux), so that an allocation of a
/// peer-claimed size fails (and aborts the process) instead of being satisfied lazily by overcommit.
pub fn limit_address_space(bytes: u64) {
    let lim = [bytes, bytes];
    unsafe {
        setrlimit(9, &lim);
    }
}
