//! C15: `humphrey_server::config::tree::parse_conf` + `Config::from_tree` on configurations rendered from a
//! generating model with random layout (indentation, comments, blank lines, key order, unit spelling,
//! include-file splitting) and on their single-fault mutants.
//!
//! Case line: `conf <TAB> hex(main text) <TAB> hex(file name) { <TAB> hex(path) <TAB> t<hex(text)> | u } <TAB> out`
//! Output: `PANIC` | `E:<hex file>:<line>:<kind>` | `T:<tree>|V:<kind>` | `T:<tree>|C:<config>`.
//! Included files are written under `../work/c15fs` (the process's working directory while a case runs, because
//! `include` opens paths relative to the working directory).
use crate::common::*;
use humphrey_server::config::config::{BlacklistMode, Config, HostConfig, LoadBalancerMode, RouteConfig, RouteType};
use humphrey_server::config::tree::{parse_conf, ConfigNode};
use humphrey_server::logger::LogLevel;
use std::cell::RefCell;

thread_local! {
    static WRITTEN: RefCell<Vec<String>> = RefCell::new(Vec::new());
    static READY: RefCell<bool> = RefCell::new(false);
}

fn scratch() {
    READY.with(|r| {
        if !*r.borrow() {
            let dir = std::env::current_dir().unwrap().join("../work/c15fs");
            std::fs::create_dir_all(&dir).expect("scratch dir");
            std::env::set_current_dir(&dir).expect("chdir scratch");
            // leftovers of an earlier run
            if let Ok(rd) = std::fs::read_dir(".") {
                for e in rd.flatten() {
                    let _ = std::fs::remove_file(e.path());
                }
            }
            *r.borrow_mut() = true;
        }
    });
}

fn hx(s: &str) -> String {
    hex(s.as_bytes())
}

fn show_node(n: &ConfigNode, o: &mut String) {
    let kids = |tag: &str, name: &str, cs: &Vec<ConfigNode>, o: &mut String| {
        o.push_str(tag);
        o.push('(');
        o.push_str(&hx(name));
        o.push_str(")[");
        for (i, c) in cs.iter().enumerate() {
            if i > 0 {
                o.push(';');
            }
            show_node(c, o);
        }
        o.push(']');
    };
    match n {
        ConfigNode::Number(k, v) => o.push_str(&format!("n({},{})", hx(k), hx(v))),
        ConfigNode::Boolean(k, v) => o.push_str(&format!("b({},{})", hx(k), hx(v))),
        ConfigNode::String(k, v) => o.push_str(&format!("s({},{})", hx(k), hx(v))),
        ConfigNode::Section(k, cs) => kids("S", k, cs, o),
        ConfigNode::Host(k, cs) => kids("H", k, cs, o),
        ConfigNode::Route(k, cs) => kids("R", k, cs, o),
    }
}

fn err_kind(msg: &str) -> String {
    match msg {
        "Could not find `server` section" => "noserver".into(),
        "Syntax error" => "syntax".into(),
        "Could not parse value" => "value".into(),
        "Invalid include value, it takes a file path in quotation marks as its value" => "include".into(),
        "Unexpected end of file, expected `}`" => "eof".into(),
        "Could not read included file" => "readinclude".into(),
        "Could not open included file" => "openinclude".into(),
        "Unbalanced quotation mark in host name" => "hostname".into(),
        "Sections or includes are nested too deeply" => "depth".into(),
        other => format!("other-{}", hx(other)),
    }
}

fn cfg_err(msg: &str) -> String {
    match msg {
        "Invalid port" => "port".into(),
        "Invalid number of threads" => "threads".into(),
        "Invalid connection timeout" => "timeout".into(),
        "You cannot specify less than 1 thread" => "threads0".into(),
        "List file could not be opened" => "listopen".into(),
        "List file could not be read" => "listread".into(),
        "Could not parse IP address in blacklist file" => "listip".into(),
        "Invalid blacklist mode" => "blmode".into(),
        "Invalid log level" => "loglevel".into(),
        "server.log.console must be a boolean" => "logconsole".into(),
        "Invalid cache size" => "cachesize".into(),
        "Invalid cache time" => "cachetime".into(),
        "Invalid load balancer mode, valid options are `round-robin` or `random`" => "lbmode".into(),
        m if m.starts_with("Invalid route configuration") => "routetarget".into(),
        other => format!("other-{}", hx(other)),
    }
}

fn opt(o: &Option<String>) -> String {
    match o {
        None => "-".into(),
        Some(s) => format!("+{}", hx(s)),
    }
}

fn show_route(r: &RouteConfig) -> String {
    let t = match r.route_type {
        RouteType::File => "file",
        RouteType::Directory => "dir",
        RouteType::Proxy => "proxy",
        RouteType::Redirect => "redirect",
        RouteType::ExclusiveWebSocket => "ws",
    };
    let lb = match &r.load_balancer {
        None => "-".to_string(),
        Some(m) => {
            let g = m.lock().unwrap();
            let ts: Vec<String> = g.targets.iter().map(|t| hx(t)).collect();
            match g.mode {
                LoadBalancerMode::RoundRobin => format!("rr({})", ts.join(",")),
                LoadBalancerMode::Random => format!("rnd({})", ts.join(",")),
            }
        }
    };
    format!("{}/{}/{}/{}/{}", t, hx(&r.matches), opt(&r.path), lb, opt(&r.websocket_proxy))
}

fn show_host(h: &HostConfig) -> String {
    let rs: Vec<String> = h.routes.iter().map(show_route).collect();
    format!("{}{{{}}}", hx(&h.matches), rs.join(";"))
}

fn show_config(c: &Config) -> String {
    let lvl = match c.logging.level {
        LogLevel::Error => "error",
        LogLevel::Warn => "warn",
        LogLevel::Info => "info",
        LogLevel::Debug => "debug",
    };
    let bm = match c.blacklist.mode {
        BlacklistMode::Block => "block",
        BlacklistMode::Forbidden => "forbidden",
    };
    let tmo = match c.connection_timeout {
        None => "-".to_string(),
        Some(d) => d.as_secs().to_string(),
    };
    let bl: Vec<String> = c.blacklist.list.iter().map(|a| a.to_string()).collect();
    let hosts: Vec<String> = c.hosts.iter().map(show_host).collect();
    format!(
        "addr={} port={} threads={} ws={} timeout={} bl=[{}] blmode={} log={},{},{} cache={},{} default={} hosts=[{}]",
        hx(&c.address),
        c.port,
        c.threads,
        opt(&c.default_websocket_proxy),
        tmo,
        bl.join(","),
        bm,
        lvl,
        if c.logging.console { "1" } else { "0" },
        opt(&c.logging.file),
        c.cache.size_limit,
        c.cache.time_limit,
        show_host(&c.default_host),
        hosts.join(",")
    )
}

fn canon_error(display: &str) -> String {
    let rest = display.strip_prefix("Configuration error at ").unwrap_or(display);
    let (head, msg) = match rest.rfind(": ") {
        Some(i) => (&rest[..i], &rest[i + 2..]),
        None => (rest, ""),
    };
    let (file, line) = match head.rfind(" line ") {
        Some(i) => (&head[..i], &head[i + 6..]),
        None => (head, "?"),
    };
    format!("E:{}:{}:{}", hx(file), line, err_kind(msg))
}

/// Run the real code on one configuration whose files have already been written.
fn run_impl(main: &str, name: &str) -> String {
    let r = guarded(|| match parse_conf(main, name) {
        Err(e) => canon_error(&e.to_string()),
        Ok(tree) => {
            let mut o = String::from("T:");
            show_node(&tree, &mut o);
            o.push('|');
            match guarded(|| Config::from_tree(tree)) {
                Err(_) => o.push_str("PANIC"),
                Ok(Err(m)) => {
                    o.push_str("V:");
                    o.push_str(&cfg_err(m));
                }
                Ok(Ok(c)) => {
                    o.push_str("C:");
                    o.push_str(&show_config(&c));
                }
            }
            o
        }
    });
    r.unwrap_or_else(|_| "PANIC".into())
}

/// Re-execute one case (`fn`, args…) on the implementation.
pub fn exec(f: &[String]) -> Option<String> {
    if f[0] != "conf" || f.len() < 3 || (f.len() - 3) % 2 != 0 {
        return None;
    }
    scratch();
    let main = String::from_utf8(unhex(&f[1])).ok()?;
    let name = String::from_utf8(unhex(&f[2])).ok()?;
    WRITTEN.with(|w| {
        for p in w.borrow_mut().drain(..) {
            let _ = std::fs::remove_file(&p);
        }
    });
    let mut i = 3;
    while i + 1 < f.len() {
        let path = String::from_utf8(unhex(&f[i])).ok()?;
        if path.contains('/') || path.contains("..") || path.is_empty() {
            return None; // scratch files only
        }
        let body: Vec<u8> = if f[i + 1] == "u" { vec![0xff, 0xfe, 0x0a] } else { unhex(&f[i + 1][1..]) };
        std::fs::write(&path, body).ok()?;
        WRITTEN.with(|w| w.borrow_mut().push(path));
        i += 2;
    }
    Some(run_impl(&main, &name))
}

// ---------------------------------------------------------------------------------------------------------
// generating model

#[derive(Clone)]
struct GRoute {
    pats: Vec<String>,
    kind: usize, // 0 file 1 dir 2 proxy 3 redirect 4 ws-only 5 none (invalid)
    target: String,
    targets: Vec<String>,
    lb: Option<String>,
    ws: Option<String>,
}

#[derive(Clone, Default)]
struct GCfg {
    address: Option<String>,
    port: Option<u64>,
    threads: Option<u64>,
    timeout: Option<u64>,
    websocket: Option<String>,
    bl_file: Option<(String, Vec<String>)>,
    bl_mode: Option<String>,
    log_level: Option<String>,
    log_console: Option<bool>,
    log_file: Option<String>,
    cache_size: Option<(u64, usize)>, // number, unit index
    cache_time: Option<u64>,
    routes: Vec<GRoute>,
    hosts: Vec<(String, Vec<GRoute>)>,
}

const UNITS: [(&str, u64); 7] =
    [("", 1), ("K", 1 << 10), ("M", 1 << 20), ("G", 1 << 30), ("k", 1 << 10), ("m", 1 << 20), ("g", 1 << 30)];

fn gen_route(rng: &mut Rng, valid: bool) -> GRoute {
    let segs = ["/", "/*", "/static/*", "/images/*", "/api/v1/*", "/ws", "/logo.png", "/home", "/é/*", "/a b", "*"];
    let n = if rng.chance(1, 3) { rng.range(2, 3) } else { 1 };
    let pats = (0..n).map(|_| rng.pick(&segs).to_string()).collect();
    let kind = if valid { rng.below(5) as usize } else { 5 };
    let paths = ["/var/www", "/var/static/logo_256x256.png", ".", "C:\\www", "/srv/é", "/", "http://localhost/", "a b"];
    let hosts = ["127.0.0.1:8000", "127.0.0.1:8080", "localhost:1234", "[::1]:80", "backend"];
    let nt = rng.range(1, 3);
    GRoute {
        pats,
        kind,
        target: rng.pick(&paths).to_string(),
        targets: (0..nt).map(|_| rng.pick(&hosts).to_string()).collect(),
        lb: if rng.chance(1, 2) { Some(rng.pick(&["round-robin", "random"]).to_string()) } else { None },
        ws: if kind == 4 || rng.chance(1, 5) { Some(rng.pick(&hosts).to_string()) } else { None },
    }
}

fn gen_cfg(rng: &mut Rng, id: u64) -> GCfg {
    let mut c = GCfg::default();
    let some = |rng: &mut Rng| rng.chance(3, 5);
    if some(rng) {
        c.address = Some(rng.pick(&["0.0.0.0", "127.0.0.1", "::1", "localhost", "192.168.1.7"]).to_string());
    }
    if some(rng) {
        c.port = Some(*rng.pick(&[80u64, 443, 8080, 1, 65535, 0, 12345]));
    }
    if some(rng) {
        c.threads = Some(*rng.pick(&[1u64, 2, 8, 32, 256, 1000]));
    }
    if some(rng) {
        c.timeout = Some(*rng.pick(&[0u64, 1, 5, 60, 3600]));
    }
    if rng.chance(1, 3) {
        c.websocket = Some("localhost:1234".into());
    }
    if rng.chance(1, 3) {
        let n = rng.below(4);
        let ips = (0..n).map(|_| format!("{}.{}.{}.{}", rng.below(256), rng.below(256), rng.below(256), rng.below(256))).collect();
        c.bl_file = Some((format!("bl{}.txt", id), ips));
    }
    if rng.chance(1, 2) {
        c.bl_mode = Some(rng.pick(&["block", "forbidden"]).to_string());
    }
    if some(rng) {
        c.log_level = Some(rng.pick(&["debug", "info", "warn", "error", "INFO", "Warn"]).to_string());
    }
    if rng.chance(1, 2) {
        c.log_console = Some(rng.chance(1, 2));
    }
    if rng.chance(1, 3) {
        c.log_file = Some(rng.pick(&["humphrey.log", "/var/log/h.log", "é.log"]).to_string());
    }
    if some(rng) {
        let u = rng.below(7) as usize;
        let n = match rng.below(4) {
            0 => 0,
            1 => rng.below(1000),
            2 => rng.below(1 << 20),
            _ => (i64::MAX as u64) / UNITS[u].1 - rng.below(2),
        };
        c.cache_size = Some((n, u));
    }
    if some(rng) {
        c.cache_time = Some(*rng.pick(&[0u64, 1, 60, 3600, 86400]));
    }
    let nr = rng.below(9);
    c.routes = (0..nr).map(|_| gen_route(rng, true)).collect();
    let nh = rng.below(5);
    let names = ["127.0.0.1", "*.example.com", "localhost", "example.com", "*", "é.example", "a b"];
    for _ in 0..nh {
        let nr = rng.below(9);
        c.hosts.push((rng.pick(&names).to_string(), (0..nr).map(|_| gen_route(rng, true)).collect()));
    }
    c
}

/// The configuration the generated model denotes, in the canonical form of `show_config`.
fn expected(c: &GCfg) -> String {
    let route = |r: &GRoute| -> Vec<String> {
        r.pats
            .iter()
            .map(|p| {
                let ws = opt(&r.ws);
                let m = hx(p.trim());
                match r.kind {
                    0 => format!("file/{}/+{}/-/{}", m, hx(&r.target), ws),
                    1 => format!("dir/{}/+{}/-/{}", m, hx(&r.target), ws),
                    2 => {
                        let ts: Vec<String> = r.targets.iter().map(|t| hx(t)).collect();
                        let mode = if r.lb.as_deref() == Some("random") { "rnd" } else { "rr" };
                        format!("proxy/{}/-/{}({})/{}", m, mode, ts.join(","), ws)
                    }
                    3 => format!("redirect/{}/+{}/-/{}", m, hx(&r.target), ws),
                    _ => format!("ws/{}/-/-/{}", m, ws),
                }
            })
            .collect()
    };
    let host = |name: &str, rs: &Vec<GRoute>| -> String {
        let v: Vec<String> = rs.iter().flat_map(|r| route(r)).collect();
        format!("{}{{{}}}", hx(name), v.join(";"))
    };
    let size = c.cache_size.map(|(n, u)| n * UNITS[u].1).unwrap_or(0);
    let tmo = match c.timeout {
        None | Some(0) => "-".to_string(),
        Some(t) => t.to_string(),
    };
    let bl = c.bl_file.as_ref().map(|(_, ips)| ips.join(",")).unwrap_or_default();
    let hosts: Vec<String> = c.hosts.iter().map(|(n, rs)| host(n, rs)).collect();
    format!(
        "addr={} port={} threads={} ws={} timeout={} bl=[{}] blmode={} log={},{},{} cache={},{} default={} hosts=[{}]",
        hx(c.address.as_deref().unwrap_or("0.0.0.0")),
        c.port.unwrap_or(80),
        c.threads.unwrap_or(32),
        opt(&c.websocket),
        tmo,
        bl,
        c.bl_mode.as_deref().unwrap_or("block"),
        c.log_level.as_deref().unwrap_or("warn").to_ascii_lowercase(),
        if c.log_console.unwrap_or(true) { "1" } else { "0" },
        opt(&c.log_file),
        size,
        c.cache_time.unwrap_or(0),
        host("*", &c.routes),
        hosts.join(",")
    )
}

// ---------------------------------------------------------------------------------------------------------
// rendering: items → decorated lines → files

#[derive(Clone)]
enum Item {
    Kv(String, String, u8), // key, value text, class: 0 other 1 number 2 enum 3 size 4 quoted
    Sec(String, Vec<Item>), // header text (without the brace), children
}

#[derive(Clone, PartialEq)]
enum Body {
    Kv(String, String, String, u8), // key, separator, value, class
    Open(String, String),           // header, blanks before the brace
    Close,
    Empty,
}

#[derive(Clone)]
struct RLine {
    indent: String,
    body: Body,
    trail: String,
    comment: Option<String>,
}

impl RLine {
    fn text(&self) -> String {
        let mut s = self.indent.clone();
        match &self.body {
            Body::Kv(k, sep, v, _) => {
                s.push_str(k);
                s.push_str(sep);
                s.push_str(v);
            }
            Body::Open(h, b) => {
                s.push_str(h);
                s.push_str(b);
                s.push('{');
            }
            Body::Close => s.push('}'),
            Body::Empty => {}
        }
        s.push_str(&self.trail);
        if let Some(c) = &self.comment {
            s.push('#');
            s.push_str(c);
        }
        s
    }
}

struct GFile {
    name: String,
    lines: Vec<RLine>,
    crlf: bool,
    final_nl: bool,
}

impl GFile {
    fn text(&self) -> String {
        let nl = if self.crlf { "\r\n" } else { "\n" };
        let mut s: Vec<String> = self.lines.iter().map(|l| l.text()).collect();
        if self.final_nl {
            s.push(String::new());
        }
        s.join(nl)
    }
}

fn q(s: &str) -> String {
    format!("\"{}\"", s)
}

fn route_item(r: &GRoute, rng: &mut Rng) -> Item {
    let mut name = String::new();
    for (i, p) in r.pats.iter().enumerate() {
        if i > 0 {
            name.push_str(*rng.pick(&[",", ", ", " , ", ",  "]));
        }
        name.push_str(p);
    }
    let mut kids = Vec::new();
    match r.kind {
        0 => kids.push(Item::Kv("file".into(), q(&r.target), 4)),
        1 => kids.push(Item::Kv("directory".into(), q(&r.target), 4)),
        2 => {
            kids.push(Item::Kv("proxy".into(), q(&r.targets.join(",")), 4));
            if let Some(m) = &r.lb {
                kids.push(Item::Kv("load_balancer_mode".into(), q(m), 2));
            }
        }
        3 => kids.push(Item::Kv("redirect".into(), q(&r.target), 4)),
        _ => {}
    }
    if let Some(w) = &r.ws {
        kids.push(Item::Kv("websocket".into(), q(w), 4));
    }
    Item::Sec(format!("route{}{}", rng.pick(&[" ", "  ", " \t"]), name), kids)
}

fn shuffle<T>(v: &mut Vec<T>, rng: &mut Rng) {
    for i in (1..v.len()).rev() {
        let j = rng.below(i as u64 + 1) as usize;
        v.swap(i, j);
    }
}

/// Random merge that keeps the order inside each list.
fn merge(lists: Vec<Vec<Item>>, rng: &mut Rng) -> Vec<Item> {
    let mut its: Vec<std::collections::VecDeque<Item>> = lists.into_iter().map(|l| l.into()).collect();
    let mut out = Vec::new();
    loop {
        let total: usize = its.iter().map(|l| l.len()).sum();
        if total == 0 {
            return out;
        }
        let mut k = rng.below(total as u64) as usize;
        for l in its.iter_mut() {
            if k < l.len() {
                out.push(l.pop_front().unwrap());
                break;
            }
            k -= l.len();
        }
    }
}

fn cfg_items(c: &GCfg, rng: &mut Rng) -> Vec<Item> {
    let mut plain: Vec<Item> = Vec::new();
    if let Some(a) = &c.address {
        plain.push(Item::Kv("address".into(), q(a), 4));
    }
    if let Some(p) = c.port {
        let v = if rng.chance(1, 8) { q(&p.to_string()) } else { p.to_string() };
        plain.push(Item::Kv("port".into(), v, 1));
    }
    if let Some(p) = c.threads {
        plain.push(Item::Kv("threads".into(), p.to_string(), 1));
    }
    if let Some(p) = c.timeout {
        plain.push(Item::Kv("timeout".into(), p.to_string(), 1));
    }
    if let Some(w) = &c.websocket {
        plain.push(Item::Kv("websocket".into(), q(w), 4));
    }
    let mut bl = Vec::new();
    if let Some((f, _)) = &c.bl_file {
        bl.push(Item::Kv("file".into(), q(f), 4));
    }
    if let Some(m) = &c.bl_mode {
        bl.push(Item::Kv("mode".into(), q(m), 2));
    }
    if !bl.is_empty() || rng.chance(1, 6) {
        shuffle(&mut bl, rng);
        plain.push(Item::Sec("blacklist".into(), bl));
    }
    let mut log = Vec::new();
    if let Some(l) = &c.log_level {
        log.push(Item::Kv("level".into(), q(l), 2));
    }
    if let Some(b) = c.log_console {
        log.push(Item::Kv("console".into(), b.to_string(), 0));
    }
    if let Some(f) = &c.log_file {
        log.push(Item::Kv("file".into(), q(f), 4));
    }
    if !log.is_empty() || rng.chance(1, 6) {
        shuffle(&mut log, rng);
        plain.push(Item::Sec("log".into(), log));
    }
    let mut cache = Vec::new();
    if let Some((n, u)) = c.cache_size {
        cache.push(Item::Kv("size".into(), format!("{}{}", n, UNITS[u].0), 3));
    }
    if let Some(t) = c.cache_time {
        cache.push(Item::Kv("time".into(), t.to_string(), 1));
    }
    if !cache.is_empty() || rng.chance(1, 6) {
        shuffle(&mut cache, rng);
        plain.push(Item::Sec("cache".into(), cache));
    }
    // things the configuration must not depend on
    if rng.chance(1, 4) {
        plain.push(Item::Sec(
            "plugins".into(),
            vec![Item::Sec("php".into(), vec![Item::Kv("library".into(), q("php.so"), 4), Item::Kv("port".into(), "9000".into(), 1)])],
        ));
    }
    if rng.chance(1, 5) {
        plain.push(Item::Kv(rng.pick(&["comment", "x-extra", "Port", "server.port"]).to_string(), rng.pick(&["17", "true", "\"z\"", "3m"]).to_string(), 0));
    }
    shuffle(&mut plain, rng);
    let routes: Vec<Item> = c.routes.iter().map(|r| route_item(r, rng)).collect();
    let hosts: Vec<Item> = c
        .hosts
        .iter()
        .map(|(n, rs)| {
            let kids: Vec<Item> = rs.iter().map(|r| route_item(r, rng)).collect();
            Item::Sec(format!("host{}{}", rng.pick(&[" ", "  "]), q(n)), kids)
        })
        .collect();
    merge(vec![plain, routes, hosts], rng)
}

struct Lay<'a> {
    rng: &'a mut Rng,
    files: Vec<GFile>,
    id: u64,
    plainness: u64, // 0 = wild layout … 3 = no decoration
    includes: bool,
}

impl<'a> Lay<'a> {
    fn blanks(&mut self, max: u64) -> String {
        let n = self.rng.below(max + 1);
        (0..n).map(|_| if self.rng.chance(1, 5) { '\t' } else { ' ' }).collect()
    }
    fn comment(&mut self) -> Option<String> {
        if self.plainness >= 3 || !self.rng.chance(1, 4) {
            return None;
        }
        Some(
            self.rng
                .pick(&[" a comment", "", " {", " }", " port 80", " \"quoted\"", "# double", " é ü", " include \"x\"", " server {", " size 1X"])
                .to_string(),
        )
    }
    fn deco(&mut self, depth: usize, body: Body) -> RLine {
        let indent = if self.plainness >= 3 {
            "  ".repeat(depth)
        } else if self.rng.chance(1, 2) {
            " ".repeat(depth * self.rng.range(1, 4) as usize)
        } else {
            self.blanks(9)
        };
        let comment = self.comment();
        // a comment directly after a value is fine: `#` ends the value wherever it stands
        let trail = if self.plainness >= 3 { String::new() } else { self.blanks(3) };
        RLine { indent, body, trail, comment }
    }
    fn filler(&mut self, depth: usize, out: &mut Vec<RLine>) {
        if self.plainness >= 2 {
            return;
        }
        while self.rng.chance(1, 5) {
            let mut l = self.deco(depth, Body::Empty);
            if self.rng.chance(1, 2) {
                l.comment = Some(self.rng.pick(&[" note", " }", " route /x {", "", " \"", " key"]).to_string());
            }
            out.push(l);
        }
    }
    fn sep(&mut self) -> String {
        if self.plainness >= 3 {
            return " ".into();
        }
        let mut s = String::new();
        if self.rng.chance(1, 8) {
            s.push('\t');
        }
        s.push(' ');
        s.push_str(&self.blanks(6));
        s
    }
    /// Render a list of sibling items; with some probability a contiguous run goes to an include file.
    fn items(&mut self, items: &[Item], depth: usize, inc_depth: usize, out: &mut Vec<RLine>) {
        let mut i = 0;
        while i < items.len() {
            self.filler(depth, out);
            if self.includes && inc_depth < 3 && self.rng.chance(1, 6) {
                let len = 1 + self.rng.below((items.len() - i) as u64) as usize;
                let name = format!("inc{}_{}.conf", self.id, self.files.len());
                let idx = self.files.len();
                self.files.push(GFile { name: name.clone(), lines: Vec::new(), crlf: self.rng.chance(1, 6), final_nl: self.rng.chance(1, 2) });
                let mut sub = Vec::new();
                self.items(&items[i..i + len], 0, inc_depth + 1, &mut sub);
                self.filler(0, &mut sub);
                self.files[idx].lines = sub;
                let s = self.sep();
                let l = self.deco(depth, Body::Kv("include".into(), s, q(&name), 5));
                out.push(l);
                i += len;
                continue;
            }
            match &items[i] {
                Item::Kv(k, v, class) => {
                    let s = self.sep();
                    let l = self.deco(depth, Body::Kv(k.clone(), s, v.clone(), *class));
                    out.push(l);
                }
                Item::Sec(h, kids) => {
                    let b = if self.plainness >= 3 { " ".to_string() } else { self.blanks(2) };
                    let l = self.deco(depth, Body::Open(h.clone(), b));
                    out.push(l);
                    self.items(kids, depth + 1, inc_depth, out);
                    self.filler(depth + 1, out);
                    let l = self.deco(depth, Body::Close);
                    out.push(l);
                }
            }
            i += 1;
        }
    }
}

/// Files of one rendered configuration; index 0 is the main file.
fn render(items: &[Item], rng: &mut Rng, id: u64, plainness: u64, includes: bool) -> Vec<GFile> {
    let crlf = rng.chance(1, 8);
    let final_nl = rng.chance(1, 2);
    let mut lay = Lay { rng, files: vec![GFile { name: format!("main{}.conf", id), lines: Vec::new(), crlf, final_nl }], id, plainness, includes };
    let mut out = Vec::new();
    lay.filler(0, &mut out);
    let mut open = lay.deco(0, Body::Open("server".into(), " ".into()));
    if lay.rng.chance(1, 2) {
        open.indent = String::new();
    }
    out.push(open);
    lay.items(items, 1, 0, &mut out);
    lay.filler(1, &mut out);
    let close = lay.deco(0, Body::Close);
    out.push(close);
    if lay.rng.chance(1, 6) {
        // text after the end of the server section is ignored
        let l = lay.deco(0, Body::Empty);
        out.push(l);
    }
    lay.files[0].lines = out;
    lay.files
}

fn emit(out: &mut Out, files: &[GFile], extra: &[(String, Option<String>)], tag: &str, oracle: Option<&str>, nontrivial: bool) {
    let main = files[0].text();
    let mut f: Vec<String> = vec!["conf".into(), hx(&main), hx(&files[0].name)];
    for g in &files[1..] {
        f.push(hx(&g.name));
        f.push(format!("t{}", hx(&g.text())));
    }
    for (p, c) in extra {
        f.push(hx(p));
        f.push(match c {
            Some(t) => format!("t{}", hx(t)),
            None => "u".into(),
        });
    }
    let mut r = exec(&f).unwrap_or_else(|| "UNSUPPORTED".into());
    out.count(&format!("class={}", tag));
    let kind = if r == "PANIC" {
        "PANIC".to_string()
    } else if let Some(rest) = r.strip_prefix("E:") {
        format!("syntax-error:{}", rest.rsplit(':').next().unwrap_or(""))
    } else if let Some(i) = r.find("|V:") {
        format!("invalid:{}", &r[i + 3..])
    } else {
        "loaded".to_string()
    };
    out.count(&format!("result={}", kind));
    if let Some(exp) = oracle {
        // the generating model's own reading of the file
        let got = r.find("|C:").map(|i| r[i + 3..].to_string());
        if got.as_deref() != Some(exp) {
            out.count("oracle-mismatch");
            r = format!("ORACLE-MISMATCH expected={} got={}", exp, r);
        }
    }
    let refs: Vec<&str> = f.iter().map(|s| s.as_str()).collect();
    out.case(&refs, &r, nontrivial);
}

fn bl_extra(c: &GCfg) -> Vec<(String, Option<String>)> {
    match &c.bl_file {
        Some((p, ips)) => vec![(p.clone(), Some(ips.iter().map(|s| format!("{}\n", s)).collect::<String>()))],
        None => vec![],
    }
}

/// Positions (file, line) of lines satisfying `pred`.
fn find_lines(files: &[GFile], pred: &dyn Fn(&RLine) -> bool) -> Vec<(usize, usize)> {
    let mut v = Vec::new();
    for (fi, f) in files.iter().enumerate() {
        for (li, l) in f.lines.iter().enumerate() {
            if pred(l) {
                v.push((fi, li));
            }
        }
    }
    v
}

fn clone_files(files: &[GFile]) -> Vec<GFile> {
    files.iter().map(|f| GFile { name: f.name.clone(), lines: f.lines.clone(), crlf: f.crlf, final_nl: f.final_nl }).collect()
}

/// One single-fault mutant of class `class`, when the file offers a place for it.
fn mutate(files: &[GFile], class: &str, rng: &mut Rng) -> Option<Vec<GFile>> {
    let mut m = clone_files(files);
    let is_kv = |c: u8| move |l: &RLine| matches!(&l.body, Body::Kv(_, _, _, k) if *k == c);
    match class {
        "missing-brace" => {
            let v = find_lines(files, &|l| l.body == Body::Close);
            let (f, l) = *rng.pick(&v);
            m[f].lines.remove(l);
        }
        "missing-value" => {
            let v = find_lines(files, &|l| matches!(&l.body, Body::Kv(_, _, _, k) if *k != 5));
            if v.is_empty() {
                return None;
            }
            let (f, l) = *rng.pick(&v);
            if let Body::Kv(k, sep, _, c) = m[f].lines[l].body.clone() {
                let sep = if rng.chance(1, 2) { sep } else { String::new() };
                m[f].lines[l].body = Body::Kv(k, sep, String::new(), c);
            }
        }
        "bad-number" => {
            let v = find_lines(files, &is_kv(1));
            if v.is_empty() {
                return None;
            }
            let (f, l) = *rng.pick(&v);
            if let Body::Kv(k, sep, val, c) = m[f].lines[l].body.clone() {
                let bad = match rng.below(7) {
                    0 => format!("{}x", val.trim_matches('"')),
                    1 => "8o".to_string(),
                    2 => "99999999999999999999".to_string(),
                    3 => "-5".to_string(),
                    4 => "1.5".to_string(),
                    5 => "0x10".to_string(),
                    _ => "18446744073709551616".to_string(),
                };
                m[f].lines[l].body = Body::Kv(k, sep, bad, c);
            }
        }
        "bad-enum" => {
            let v = find_lines(files, &is_kv(2));
            if v.is_empty() {
                return None;
            }
            let (f, l) = *rng.pick(&v);
            if let Body::Kv(k, sep, _, c) = m[f].lines[l].body.clone() {
                let bad = rng.pick(&["\"blok\"", "\"verbose\"", "\"fastest\"", "\"\"", "\"round robin\"", "7", "true"]).to_string();
                m[f].lines[l].body = Body::Kv(k, sep, bad, c);
            }
        }
        "unknown-unit" => {
            let v = find_lines(files, &is_kv(3));
            if v.is_empty() {
                return None;
            }
            let (f, l) = *rng.pick(&v);
            if let Body::Kv(k, sep, val, c) = m[f].lines[l].body.clone() {
                let digits: String = val.chars().take_while(|c| c.is_ascii_digit()).collect();
                let bad = format!("{}{}", digits, rng.pick(&["X", "T", "KB", "Ki", "é", "K K", "k1", "µ", "Ｋ", "_"]));
                m[f].lines[l].body = Body::Kv(k, sep, bad, c);
            }
        }
        "unterminated-quote" => {
            let v = find_lines(files, &|l| match &l.body {
                Body::Kv(_, _, v, _) => v.len() >= 2 && v.ends_with('"'),
                Body::Open(h, _) => h.starts_with("host") && h.ends_with('"'),
                _ => false,
            });
            if v.is_empty() {
                return None;
            }
            let (f, l) = *rng.pick(&v);
            let front = rng.chance(1, 4);
            match m[f].lines[l].body.clone() {
                Body::Kv(k, sep, mut val, c) => {
                    if front {
                        val.remove(0);
                    } else {
                        val.pop();
                    }
                    m[f].lines[l].body = Body::Kv(k, sep, val, c);
                }
                Body::Open(mut h, b) => {
                    if front {
                        let i = h.find('"').unwrap();
                        h.remove(i);
                    } else {
                        h.pop();
                    }
                    m[f].lines[l].body = Body::Open(h, b);
                }
                _ => {}
            }
        }
        _ => return None,
    }
    Some(m)
}

const ODD_CHARS: [char; 10] = ['é', '😀', '\u{a0}', '\u{2003}', '\u{3000}', '\u{85}', '\u{200b}', '\u{feff}', 'Ｋ', '\u{1680}'];

fn conf_case(out: &mut Out, text: &str, tag: &str) {
    let f = GFile { name: "t.conf".into(), lines: vec![RLine { indent: text.to_string(), body: Body::Empty, trail: String::new(), comment: None }], crlf: false, final_nl: false };
    emit(out, &[f], &[], tag, None, true);
}

pub fn gen(out: &mut Out, thorough: bool, seed: u64) {
    let mut rng = Rng::new(seed);
    let n_cfg = if thorough { 60_000 } else { 1_500 };
    let classes = ["missing-brace", "missing-value", "bad-number", "bad-enum", "unknown-unit", "unterminated-quote"];

    // (1) hand-written probes of the value grammar and of the error positions
    let i64max = i64::MAX;
    let mut sizes: Vec<String> = vec![
        "0", "1", "9", "-1", "+1", "007", "12K", "12k", "1M", "1m", "1G", "1g", "0K", "-1K", "+1K", "-0", "K", "k", "+K", "-K", "1KK", "1 K", "1T", "1B",
        "12é", "é", "1é", "éK", "12Ｋ", "1\u{212a}", "9223372036854775807", "9223372036854775808", "-9223372036854775808", "-9223372036854775809",
        "9223372036854775807K", "9007199254740991K", "9007199254740992K", "-9007199254740992K", "-9007199254740993K", "8796093022207M", "8796093022208M",
        "-8796093022208M", "-8796093022209M", "8589934591G", "8589934592G", "-8589934592G", "-8589934593G", "true", "false", "True", "\"", "\"\"", "\"a",
        "a\"", "\"a\"", "\"a\" \"b\"", "\"é\"", "\"a\"b", "'a'", "1e3", "0x1F", "1_000", "١٢", "１２",
    ]
    .into_iter()
    .map(|s| s.to_string())
    .collect();
    for u in ["K", "M", "G"] {
        for d in [-2i64, -1, 0, 1, 2] {
            let m: i64 = match u {
                "K" => 1 << 10,
                "M" => 1 << 20,
                _ => 1 << 30,
            };
            sizes.push(format!("{}{}", i64max / m + d, u));
            sizes.push(format!("{}{}", i64::MIN / m + d, u.to_lowercase()));
        }
    }
    for v in &sizes {
        conf_case(out, &format!("server {{\n  k {}\n}}", v), "value-probe");
        conf_case(out, &format!("server {{\n  cache {{\n    size {}\n  }}\n}}", v), "value-probe");
    }
    let probes = [
        "", "\n", "server {", "server {\n}", "server{\n}", "server  {\n}", " server { # c\n}\n", "# server {\nserver {\n}", "x\nserver {\n}\n}", "server {\n}\nport",
        "server {\nport\n}", "server {\nport \n}", "server {\nport # 80\n}", "server {\n port 80", "server {\nlog {\n}", "server {\nlog {\nlevel \"info\"\n",
        "server {\nhost \" {\n}\n}", "server {\nhost \"\" {\n}\n}", "server {\nhost \"a {\n}\n}", "server {\nhost a\" {\n}\n}", "server {\nhost a {\n}\n}",
        "server {\nhost {\n}\n}", "server {\nroute {\n}\n}", "server {\nroute  {\n}\n}", "server {\nroute / {\n}\n}", "server {\nroute /a,/b , /c {\nfile \"x\"\n}\n}",
        "server {\nroute , {\nfile \"x\"\n}\n}", "server {\nhost\t\"a\" {\n}\n}", "server {\nhost \"é\" {\n}\n}", "server {\nhost é\" {\n}\n}", "server {\nhost \"é {\n}\n}",
        "server {\n{\n}\n}", "server {\n {\nport 1\n}\n}", "server {\né {\n}\n}", "server {\na{\n}\n}", "server {\nroute /a{\n}\n}", "server {\nroute /a { {\n}\n}",
        "server {\ninclude\n}", "server {\ninclude x\n}", "server {\ninclude \"missing.conf\"\n}", "server {\ninclude \"\"\n}", "server {\ninclude \"a\n}",
        "server {\ninclude \"é\"\n}", "server {\nkey\tvalue\n}", "server {\nkey\t value\n}", "server {\nkey \u{a0}1\u{a0}\n}", "server {\n\u{a0}key 1\n}",
        "server {\nport 80 }\n}", "server {\n}{\n}", "server {\nthreads 0\n}", "server {\nthreads -1\n}", "server {\nport 65536\n}", "server {\nport +80\n}",
        "server {\nport \"80\"\n}", "server {\nport true\n}", "server {\ntimeout 18446744073709551615\n}", "server {\nlog {\nconsole \"true\"\n}\n}",
        "server {\nlog {\nconsole 1\n}\n}", "server {\nlog {\nlevel 1\n}\n}", "server {\nlog.level \"debug\"\n}", "server {\nport 1\nport 2\n}",
        "server {\nlog {\nlevel \"info\"\n}\nlog {\nlevel \"debug\"\n}\n}", "server {\nroute /a {\n}\n}", "server {\nroute /a {\nwebsocket \"x\"\n}\n}",
        "server {\nroute /a {\nproxy \"a,,b,\"\nload_balancer_mode \"Random\"\n}\n}", "server {\nroute /a {\nproxy 5\nfile true\n}\n}",
        "server {\nroute /a {\nx {\nfile \"f\"\n}\n}\n}", "server {\nroute /a {\nroute /b {\nfile \"f\"\n}\n}\n}", "server {\nhost \"h\" {\nhost \"i\" {\n}\n}\n}",
        "server {\nlog {\nroute /a {\n}\n}\n}", "server {\nblacklist {\nfile \"nonexistent.txt\"\n}\n}", "server {\nplugins {\nport \"x\"\n}\n}",
        "server {\r\nport 80\r\n}\r\n", "server {\rport 80\r}", "server {\nport 80\r", "server {\nport 80\n}\r", "\u{feff}server {\n}",
    ];
    for p in probes {
        conf_case(out, p, "probe");
    }
    // blacklist files
    for (i, body) in ["1.2.3.4\n", "1.2.3.4\n5.6.7.8", "", "\n", "1.2.3.4\n\n", "01.2.3.4\n", "1.2.3\n", "1.2.3.256\n", "1.2.3.4 \n", "1.2.3.4\r\n5.6.7.8\r\n", "+1.2.3.4", "1.2.3.4.5", "0.0.0.0\n255.255.255.255\n", "zzz", "1..2.3"].iter().enumerate() {
        let name = format!("blp{}.txt", i);
        let f = GFile { name: "t.conf".into(), lines: vec![RLine { indent: format!("server {{\nblacklist {{\nfile \"{}\"\n}}\n}}", name), body: Body::Empty, trail: String::new(), comment: None }], crlf: false, final_nl: false };
        emit(out, &[f], &[(name, Some(body.to_string()))], "blacklist-file", None, true);
    }
    {
        let f = GFile { name: "t.conf".into(), lines: vec![RLine { indent: "server {\nblacklist {\nfile \"blu.txt\"\n}\ninclude \"blu.txt\"\n}".into(), body: Body::Empty, trail: String::new(), comment: None }], crlf: false, final_nl: false };
        emit(out, &[f], &[("blu.txt".into(), None)], "unreadable-file", None, true);
        let f = GFile { name: "t.conf".into(), lines: vec![RLine { indent: "server {\ninclude \"blu.txt\"\n}".into(), body: Body::Empty, trail: String::new(), comment: None }], crlf: false, final_nl: false };
        emit(out, &[f], &[("blu.txt".into(), None)], "unreadable-file", None, true);
    }
    // include probes: errors inside included files name that file and its own line
    for (i, body) in ["port 80", "port\n", "\n\nport 8o\n", "log {\nlevel \"info\"\n", "}\nport 1", "route /a {\nfile \"x\"\n}\n}\nroute /b {\n}", "include \"incp_leaf.conf\"", "include \"nope.conf\"", "server {\n}", "# only a comment", ""].iter().enumerate() {
        let name = format!("incp{}.conf", i);
        let f = GFile { name: "t.conf".into(), lines: vec![RLine { indent: format!("server {{\nthreads 2\ninclude \"{}\"\nport 81\n}}", name), body: Body::Empty, trail: String::new(), comment: None }], crlf: false, final_nl: false };
        emit(out, &[f], &[(name, Some(body.to_string())), ("incp_leaf.conf".into(), Some("timeout 9\nbad".into()))], "include-probe", None, true);
    }
    // nesting depth: sections and includes (bounded here; the unrepaired code recursed without limit)
    for depth in [1usize, 2, 10, 100, 127, 128, 129, 130, 200] {
        let mut s = String::from("server {\n");
        for _ in 0..depth {
            s.push_str("a {\n");
        }
        s.push_str("k 1\n");
        for _ in 0..depth {
            s.push_str("}\n");
        }
        s.push('}');
        conf_case(out, &s, "nesting");
        let mut s2 = String::from("server {\n");
        for _ in 0..depth {
            s2.push_str("a {\n");
        }
        conf_case(out, &s2, "nesting");
    }
    if std::env::var("C15_NO_CYCLES").is_err() {
        // include cycles and chains
        let f = |t: &str| GFile { name: "t.conf".into(), lines: vec![RLine { indent: t.to_string(), body: Body::Empty, trail: String::new(), comment: None }], crlf: false, final_nl: false };
        emit(out, &[f("server {\ninclude \"cyc_a.conf\"\n}")], &[("cyc_a.conf".into(), Some("x 1\ninclude \"cyc_a.conf\"\n".into()))], "include-cycle", None, true);
        emit(out, &[f("server {\ninclude \"cyc_a.conf\"\n}")], &[("cyc_a.conf".into(), Some("include \"cyc_b.conf\"".into())), ("cyc_b.conf".into(), Some("a {\n\ninclude \"cyc_a.conf\"\n}".into()))], "include-cycle", None, true);
        for n in [3usize, 126, 127, 128, 129] {
            // chain of n files, each including the next
            let mut extra = Vec::new();
            for i in 0..n {
                let body = if i + 1 < n { format!("include \"ch{}.conf\"", i + 1) } else { "leaf 1".to_string() };
                extra.push((format!("ch{}.conf", i), Some(body)));
            }
            emit(out, &[f("server {\ninclude \"ch0.conf\"\n}")], &extra, "include-chain", None, true);
        }
    }
    // every character class through `trim` / `clean_up` / the value typing
    let top = if thorough { 0x11000u32 } else { 0x3100 };
    for cp in (0..top).filter_map(char::from_u32) {
        if cp == '\n' {
            continue;
        }
        conf_case(out, &format!("server {{\n{}port{} 80{}\n}}", cp, cp, cp), "char-sweep");
    }

    // (2) generated configurations, their layouts and single-fault mutants
    let mut nonascii_budget = if thorough { 400 } else { 12 };
    for id in 0..n_cfg {
        let cfg = gen_cfg(&mut rng, id);
        let items = cfg_items(&cfg, &mut rng);
        let exp = expected(&cfg);
        let extra = bl_extra(&cfg);
        let layouts = if thorough { 3 } else { 2 };
        let mut last: Option<Vec<GFile>> = None;
        for k in 0..layouts {
            let plainness = if k == 0 { 3 } else { rng.below(3) };
            let files = render(&items, &mut rng, id, plainness, k > 0);
            emit(out, &files, &extra, if files.len() > 1 { "valid+include" } else { "valid" }, Some(&exp), true);
            out.count(&format!("include-files={}", (files.len() - 1).min(6)));
            last = Some(files);
        }
        let files = last.unwrap();
        for class in classes {
            if let Some(m) = mutate(&files, class, &mut rng) {
                emit(out, &m, &extra, class, None, true);
            }
        }
        // invalid route (no target) somewhere
        if rng.chance(1, 4) {
            let mut bad = cfg.clone();
            let r = gen_route(&mut rng, false);
            if bad.hosts.is_empty() || rng.chance(1, 2) {
                let at = rng.below(bad.routes.len() as u64 + 1) as usize;
                bad.routes.insert(at, r);
            } else {
                let h = rng.below(bad.hosts.len() as u64) as usize;
                let at = rng.below(bad.hosts[h].1.len() as u64 + 1) as usize;
                bad.hosts[h].1.insert(at, r);
            }
            let items = cfg_items(&bad, &mut rng);
            let files = render(&items, &mut rng, id, 1, true);
            emit(out, &files, &extra, "route-without-target", None, true);
        }
        // missing include file / missing blacklist file
        if files.len() > 1 && rng.chance(1, 3) {
            let drop = 1 + rng.below(files.len() as u64 - 1) as usize;
            let kept: Vec<GFile> = clone_files(&files).into_iter().enumerate().filter(|(i, _)| *i != drop).map(|(_, f)| f).collect();
            emit(out, &kept, &extra, "missing-include-file", None, true);
        }
        // non-ASCII (and odd white space) inserted at every position of a small plain file
        if nonascii_budget > 0 && files[0].text().len() < 700 && files.len() <= 2 {
            nonascii_budget -= 1;
            let main = files[0].text();
            let which = rng.below(ODD_CHARS.len() as u64) as usize;
            for (pos, _) in main.char_indices().chain(std::iter::once((main.len(), ' '))) {
                for c in [ODD_CHARS[which], ODD_CHARS[(which + 1 + (pos % 3)) % ODD_CHARS.len()]] {
                    let mut t = main.clone();
                    t.insert(pos, c);
                    let mut fs2 = clone_files(&files);
                    fs2[0] = GFile { name: fs2[0].name.clone(), lines: vec![RLine { indent: t, body: Body::Empty, trail: String::new(), comment: None }], crlf: false, final_nl: false };
                    emit(out, &fs2, &extra, "non-ascii", None, true);
                }
            }
        }
    }
    out.extra.insert(
        "generator".into(),
        "configurations from a model (all keys optional, 0..8 routes of every type with 1..3 patterns, 0..4 hosts, units K/M/G/k/m/g incl. the overflow boundary); \
         layout: indentation, separators, trailing blanks, comments (with braces/quotes inside), blank and comment lines, key order, CRLF, include splitting to depth 3; \
         section nesting kept <= 200 and include chains <= 129 (the unrepaired parser recursed without limit: deeper input overflows the stack and kills the process)"
            .into(),
    );
}
