//! C14: typed JSON mapping (`derive(FromJson, IntoJson)`, `json_map!`) and the `json!` macro.
//!
//! Macro expansion is code generation, so the cases are PROGRAMS. `gen` writes a scratch crate under
//! `<verif>/work/c14_gen/` (one file per generated program, 1..6 top-level types each, plus files of
//! `json!` literals), builds it against the working tree with `cargo build --offline --release`, runs it
//! and turns every line it prints into a case line for the Lean driver:
//!   c14_ty    type, value             -> canonical to_json(v) `|` value of from_json(to_json(v)) (or ERR)
//!   c14_from  type, canonical JSON    -> value of from_json(json) | ERR
//!   c14_lit   token trees of json!(…) -> canonical value
//! An item that does not compile comes out as `COMPILE-ERROR`, a panic as `PANIC`.
//! Descriptions (types, values, token trees) are defined in `lean/HumphreyModel/Driver/C14.lean`.
use crate::common::*;
use std::collections::{BTreeSet, HashMap};
use std::path::PathBuf;
use std::process::Command;

// ---------------------------------------------------------------- descriptions

#[derive(Clone, Debug, PartialEq)]
enum Ty {
    Bool,
    Num(usize),
    Str,
    Opt(Box<Ty>),
    Vec(Box<Ty>),
    /// flag: 'd' derive on a named struct, 'm' json_map! on a named struct, 't' json_map! on a tuple struct
    Named(char, Vec<(String, Ty)>),
    Tuple(Vec<Ty>),
    Enum(Vec<String>),
}

#[derive(Clone, Debug)]
enum TV {
    Bool(bool),
    Int(i128),
    F32(u32),
    F64(u64),
    Str(String),
    None,
    Some(Box<TV>),
    Vec(Vec<TV>),
    Fields(Vec<TV>),
    Variant(usize),
}

/// `humphrey_json::Value` with numbers as bit patterns (the harness never links the value type).
#[derive(Clone, Debug)]
enum J {
    Null,
    Bool(bool),
    Num(u64),
    Str(String),
    Arr(Vec<J>),
    Obj(Vec<(String, J)>),
}

#[derive(Clone, Debug)]
enum Tok {
    Null,
    Comma,
    Colon,
    Group(bool, Vec<Tok>), // true = { }
    Expr(String, J),       // Rust source, value of Value::from(expr)
    Lit(String),
}

/// Keywords that may be used as raw identifiers (`r#type`); a derive field / variant whose JSON key is one of these
/// and carries no rename is declared under that raw identifier.
const RAW_KEYWORDS: [&str; 14] = ["type", "match", "fn", "loop", "as", "in", "ref", "mod", "use", "impl", "move", "dyn", "async", "try"];

/// Rust name of field `i` of a struct (`flag` as in `Ty::Named`) whose JSON key is `k`.
fn field_ident(flag: char, i: usize, k: &str) -> String {
    if flag == 't' {
        format!("{}", i)
    } else if flag == 'd' && RAW_KEYWORDS.contains(&k) {
        format!("r#{}", k)
    } else {
        format!("f{}", i)
    }
}

fn variant_ident(i: usize, k: &str) -> String {
    if RAW_KEYWORDS.contains(&k) { format!("r#{}", k) } else { format!("V{}", i) }
}

const KINDS: [&str; 11] = ["u8", "u16", "u32", "u64", "usize", "i8", "i16", "i32", "i64", "f32", "f64"];

fn kind_range(k: usize) -> (i128, i128) {
    match k {
        0 => (0, u8::MAX as i128),
        1 => (0, u16::MAX as i128),
        2 => (0, u32::MAX as i128),
        3 | 4 => (0, u64::MAX as i128),
        5 => (i8::MIN as i128, i8::MAX as i128),
        6 => (i16::MIN as i128, i16::MAX as i128),
        7 => (i32::MIN as i128, i32::MAX as i128),
        _ => (i64::MIN as i128, i64::MAX as i128),
    }
}

fn hs(s: &str, o: &mut String) {
    o.push('s');
    o.push_str(&hex(s.as_bytes()));
    o.push('.');
}

fn ty_desc(t: &Ty, o: &mut String) {
    match t {
        Ty::Bool => o.push('B'),
        Ty::Str => o.push('S'),
        Ty::Num(k) => {
            o.push('n');
            o.push((b'a' + *k as u8) as char);
        }
        Ty::Opt(t) => {
            o.push('O');
            ty_desc(t, o);
        }
        Ty::Vec(t) => {
            o.push('V');
            ty_desc(t, o);
        }
        Ty::Named(flag, fs) => {
            o.push('{');
            o.push(*flag);
            for (k, t) in fs {
                hs(k, o);
                ty_desc(t, o);
            }
            o.push('}');
        }
        Ty::Tuple(ts) => {
            o.push('(');
            ts.iter().for_each(|t| ty_desc(t, o));
            o.push(')');
        }
        Ty::Enum(ns) => {
            o.push('<');
            ns.iter().for_each(|n| hs(n, o));
            o.push('>');
        }
    }
}

fn tv_desc(v: &TV, o: &mut String) {
    match v {
        TV::Bool(b) => o.push(if *b { 'T' } else { 'F' }),
        TV::Int(i) => o.push_str(&format!("i{};", i)),
        TV::F32(b) => o.push_str(&format!("f{:08x}", b)),
        TV::F64(b) => o.push_str(&format!("d{:016x}", b)),
        TV::Str(s) => hs(s, o),
        TV::None => o.push('N'),
        TV::Some(v) => {
            o.push('S');
            tv_desc(v, o);
        }
        TV::Vec(vs) => {
            o.push('[');
            vs.iter().for_each(|v| tv_desc(v, o));
            o.push(']');
        }
        TV::Fields(vs) => {
            o.push('(');
            vs.iter().for_each(|v| tv_desc(v, o));
            o.push(')');
        }
        TV::Variant(i) => o.push_str(&format!("v{};", i)),
    }
}

fn j_desc(v: &J, o: &mut String) {
    match v {
        J::Null => o.push('Z'),
        J::Bool(b) => o.push(if *b { 'T' } else { 'F' }),
        J::Num(b) => o.push_str(&format!("n{:016x}", b)),
        J::Str(s) => hs(s, o),
        J::Arr(a) => {
            o.push('[');
            a.iter().for_each(|x| j_desc(x, o));
            o.push(']');
        }
        J::Obj(m) => {
            o.push('{');
            for (k, x) in m {
                hs(k, o);
                j_desc(x, o);
            }
            o.push('}');
        }
    }
}

fn tok_desc(t: &Tok, o: &mut String) {
    match t {
        Tok::Null => o.push('N'),
        Tok::Comma => o.push(','),
        Tok::Colon => o.push(':'),
        Tok::Group(brace, ts) => {
            o.push(if *brace { '{' } else { '[' });
            ts.iter().for_each(|t| tok_desc(t, o));
            o.push(if *brace { '}' } else { ']' });
        }
        Tok::Expr(src, v) => {
            o.push('e');
            o.push_str(&hex(src.as_bytes()));
            o.push('.');
            j_desc(v, o);
        }
        Tok::Lit(s) => {
            o.push('l');
            o.push_str(&hex(s.as_bytes()));
            o.push('.');
        }
    }
}

// parsers (replay)
struct P<'a> {
    b: &'a [u8],
    i: usize,
}
impl<'a> P<'a> {
    fn peek(&self) -> Option<u8> {
        self.b.get(self.i).copied()
    }
    fn next(&mut self) -> Option<u8> {
        let c = self.peek()?;
        self.i += 1;
        Some(c)
    }
    fn until(&mut self, stop: u8) -> Option<&'a str> {
        let start = self.i;
        while self.peek()? != stop {
            self.i += 1;
        }
        let s = std::str::from_utf8(&self.b[start..self.i]).ok()?;
        self.i += 1;
        Some(s)
    }
    fn hstr(&mut self) -> Option<String> {
        String::from_utf8(unhex(self.until(b'.')?)).ok()
    }
    fn fixed(&mut self, n: usize) -> Option<&'a str> {
        let s = std::str::from_utf8(self.b.get(self.i..self.i + n)?).ok()?;
        self.i += n;
        Some(s)
    }
    fn ty(&mut self) -> Option<Ty> {
        Some(match self.next()? {
            b'B' => Ty::Bool,
            b'S' => Ty::Str,
            b'n' => Ty::Num((self.next()?.checked_sub(b'a')?) as usize),
            b'O' => Ty::Opt(Box::new(self.ty()?)),
            b'V' => Ty::Vec(Box::new(self.ty()?)),
            b'{' => {
                let flag = self.next()? as char;
                let mut fs = Vec::new();
                while self.peek()? != b'}' {
                    if self.next()? != b's' {
                        return None;
                    }
                    let k = self.hstr()?;
                    fs.push((k, self.ty()?));
                }
                self.i += 1;
                Ty::Named(flag, fs)
            }
            b'(' => {
                let mut ts = Vec::new();
                while self.peek()? != b')' {
                    ts.push(self.ty()?);
                }
                self.i += 1;
                Ty::Tuple(ts)
            }
            b'<' => {
                let mut ns = Vec::new();
                while self.peek()? != b'>' {
                    if self.next()? != b's' {
                        return None;
                    }
                    ns.push(self.hstr()?);
                }
                self.i += 1;
                Ty::Enum(ns)
            }
            _ => return None,
        })
    }
    fn tv(&mut self) -> Option<TV> {
        Some(match self.next()? {
            b'T' => TV::Bool(true),
            b'F' => TV::Bool(false),
            b'i' => TV::Int(self.until(b';')?.parse().ok()?),
            b'f' => TV::F32(u32::from_str_radix(self.fixed(8)?, 16).ok()?),
            b'd' => TV::F64(u64::from_str_radix(self.fixed(16)?, 16).ok()?),
            b's' => TV::Str(self.hstr()?),
            b'N' => TV::None,
            b'S' => TV::Some(Box::new(self.tv()?)),
            c @ (b'[' | b'(') => {
                let close = if c == b'[' { b']' } else { b')' };
                let mut vs = Vec::new();
                while self.peek()? != close {
                    vs.push(self.tv()?);
                }
                self.i += 1;
                if c == b'[' { TV::Vec(vs) } else { TV::Fields(vs) }
            }
            b'v' => TV::Variant(self.until(b';')?.parse().ok()?),
            _ => return None,
        })
    }
    fn j(&mut self) -> Option<J> {
        Some(match self.next()? {
            b'Z' => J::Null,
            b'T' => J::Bool(true),
            b'F' => J::Bool(false),
            b'n' => J::Num(u64::from_str_radix(self.fixed(16)?, 16).ok()?),
            b's' => J::Str(self.hstr()?),
            b'[' => {
                let mut a = Vec::new();
                while self.peek()? != b']' {
                    a.push(self.j()?);
                }
                self.i += 1;
                J::Arr(a)
            }
            b'{' => {
                let mut m = Vec::new();
                while self.peek()? != b'}' {
                    if self.next()? != b's' {
                        return None;
                    }
                    let k = self.hstr()?;
                    m.push((k, self.j()?));
                }
                self.i += 1;
                J::Obj(m)
            }
            _ => return None,
        })
    }
    fn toks(&mut self, close: Option<u8>) -> Option<Vec<Tok>> {
        let mut ts = Vec::new();
        loop {
            match (self.peek(), close) {
                (None, None) => return Some(ts),
                (None, Some(_)) => return None,
                (Some(c), Some(d)) if c == d => {
                    self.i += 1;
                    return Some(ts);
                }
                _ => (),
            }
            ts.push(match self.next()? {
                b'N' => Tok::Null,
                b',' => Tok::Comma,
                b':' => Tok::Colon,
                b'[' => Tok::Group(false, self.toks(Some(b']'))?),
                b'{' => Tok::Group(true, self.toks(Some(b'}'))?),
                b'l' => Tok::Lit(self.hstr()?),
                b'e' => {
                    let src = self.hstr()?;
                    Tok::Expr(src, self.j()?)
                }
                _ => return None,
            });
        }
    }
}

// ---------------------------------------------------------------- Rust source emission

/// A string literal with everything but ASCII letters and digits escaped.
fn rs_str(s: &str) -> String {
    let mut o = String::from("\"");
    for c in s.chars() {
        if c.is_ascii_alphanumeric() || c == '_' || c == ' ' || c == '-' {
            o.push(c);
        } else {
            o.push_str(&format!("\\u{{{:x}}}", c as u32));
        }
    }
    o.push('"');
    o
}

fn rs_json(v: &J) -> String {
    match v {
        J::Null => "Value::Null".into(),
        J::Bool(b) => format!("Value::Bool({})", b),
        J::Num(b) => format!("Value::Number(f64::from_bits(0x{:016x}))", b),
        J::Str(s) => format!("Value::String(String::from({}))", rs_str(s)),
        J::Arr(a) => format!("Value::Array(vec![{}])", a.iter().map(rs_json).collect::<Vec<_>>().join(", ")),
        J::Obj(m) => format!(
            "Value::Object(vec![{}])",
            m.iter().map(|(k, x)| format!("(String::from({}), {})", rs_str(k), rs_json(x))).collect::<Vec<_>>().join(", ")
        ),
    }
}

fn rs_toks(ts: &[Tok], o: &mut String) {
    for t in ts {
        match t {
            Tok::Null => o.push_str("null "),
            Tok::Comma => o.push_str(", "),
            Tok::Colon => o.push_str(": "),
            Tok::Group(brace, inner) => {
                o.push_str(if *brace { "{ " } else { "[ " });
                rs_toks(inner, o);
                o.push_str(if *brace { "} " } else { "] " });
            }
            Tok::Expr(src, _) => {
                o.push_str(src);
                o.push(' ');
            }
            Tok::Lit(s) => {
                o.push_str(&rs_str(s));
                o.push(' ');
            }
        }
    }
}

/// Declarations for one top-level type; struct/enum nodes get the names `<prefix>_<n>`.
struct Decls {
    prefix: String,
    memo: HashMap<String, String>,
    src: String,
}

impl Decls {
    fn name(&mut self, t: &Ty) -> String {
        match t {
            Ty::Bool => "bool".into(),
            Ty::Str => "String".into(),
            Ty::Num(k) => KINDS[*k].into(),
            Ty::Opt(t) => format!("Option<{}>", self.name(t)),
            Ty::Vec(t) => format!("Vec<{}>", self.name(t)),
            _ => {
                let mut d = String::new();
                ty_desc(t, &mut d);
                if let Some(n) = self.memo.get(&d) {
                    return n.clone();
                }
                let n = format!("{}_{}", self.prefix, self.memo.len());
                self.memo.insert(d, n.clone());
                self.declare(&n, t);
                n
            }
        }
    }
    fn declare(&mut self, n: &str, t: &Ty) {
        let mut s = String::new();
        match t {
            Ty::Named(flag, fs) => {
                let tys: Vec<String> = fs.iter().map(|(_, t)| self.name(t)).collect();
                match flag {
                    'd' => {
                        s += &format!("#[derive(FromJson, IntoJson)]\npub struct {} {{\n", n);
                        for (i, (k, _)) in fs.iter().enumerate() {
                            if *k != format!("f{}", i) && !RAW_KEYWORDS.contains(&k.as_str()) {
                                // other attributes of the `name = "string"` form next to the rename (a doc comment is
                                // `#[doc = "…"]`): only `rename` names the key
                                match (i + fs.len()) % 4 {
                                    1 => s += "    /// documented field\n",
                                    2 => s += "    #[doc = \"wrong-key\"]\n",
                                    _ => {}
                                }
                                s += &format!("    #[rename = {}]\n", rs_str(k));
                                if (i + fs.len()) % 4 == 3 { s += "    /// documented after the rename\n"; }
                            }
                            s += &format!("    pub {}: {},\n", field_ident('d', i, k), tys[i]);
                        }
                        s += "}\n";
                    }
                    'm' => {
                        s += &format!("pub struct {} {{\n", n);
                        for (i, _) in fs.iter().enumerate() {
                            s += &format!("    pub f{}: {},\n", i, tys[i]);
                        }
                        s += &format!("}}\njson_map! {{\n    {}", n);
                        for (i, (k, _)) in fs.iter().enumerate() {
                            s += &format!(",\n    f{} => {}", i, rs_str(k));
                        }
                        s += "\n}\n";
                    }
                    _ => {
                        s += &format!("pub struct {}({});\n", n, tys.iter().map(|t| format!("pub {}", t)).collect::<Vec<_>>().join(", "));
                        s += &format!("json_map! {{\n    {}", n);
                        for (i, (k, _)) in fs.iter().enumerate() {
                            s += &format!(",\n    {} => {}", i, rs_str(k));
                        }
                        s += "\n}\n";
                    }
                }
                let dot = |i: usize| field_ident(*flag, i, &fs[i].0);
                s += &format!("impl Canon for {} {{\n    fn canon(&self, o: &mut String) {{\n        o.push('(');\n", n);
                for i in 0..fs.len() {
                    s += &format!("        self.{}.canon(o);\n", dot(i));
                }
                s += "        o.push(')');\n    }\n}\n";
            }
            Ty::Tuple(ts) => {
                let tys: Vec<String> = ts.iter().map(|t| self.name(t)).collect();
                s += &format!("#[derive(FromJson, IntoJson)]\npub struct {}({});\n", n, tys.iter().map(|t| format!("pub {}", t)).collect::<Vec<_>>().join(", "));
                s += &format!("impl Canon for {} {{\n    fn canon(&self, o: &mut String) {{\n        o.push('(');\n", n);
                for i in 0..ts.len() {
                    s += &format!("        self.{}.canon(o);\n", i);
                }
                s += "        o.push(')');\n    }\n}\n";
            }
            Ty::Enum(ns) => {
                s += &format!("#[derive(FromJson, IntoJson)]\npub enum {} {{\n", n);
                for (i, k) in ns.iter().enumerate() {
                    if *k != format!("V{}", i) && !RAW_KEYWORDS.contains(&k.as_str()) {
                        match (i + ns.len()) % 4 {
                            1 => s += "    /// documented variant\n",
                            2 => s += "    #[doc = \"wrong-name\"]\n",
                            _ => {}
                        }
                        s += &format!("    #[rename = {}]\n", rs_str(k));
                        if (i + ns.len()) % 4 == 3 { s += "    /// documented after the rename\n"; }
                    }
                    s += &format!("    {},\n", variant_ident(i, k));
                }
                s += "}\n";
                s += &format!("impl Canon for {} {{\n    fn canon(&self, o: &mut String) {{\n        match self {{\n", n);
                for i in 0..ns.len() {
                    s += &format!("            Self::{} => o.push_str(\"v{};\"),\n", variant_ident(i, &ns[i]), i);
                }
                s += "        }\n    }\n}\n";
            }
            _ => unreachable!(),
        }
        self.src += &s;
    }
    fn value(&mut self, t: &Ty, v: &TV) -> String {
        match (t, v) {
            (_, TV::Bool(b)) => format!("{}", b),
            (Ty::Num(k), TV::Int(i)) => format!("{}{}", i, KINDS[*k]),
            (_, TV::F32(b)) => format!("f32::from_bits(0x{:08x})", b),
            (_, TV::F64(b)) => format!("f64::from_bits(0x{:016x})", b),
            (_, TV::Str(s)) => format!("String::from({})", rs_str(s)),
            (_, TV::None) => "None".into(),
            (Ty::Opt(t), TV::Some(v)) => format!("Some({})", self.value(t, v)),
            (Ty::Vec(t), TV::Vec(vs)) => format!("vec![{}]", vs.iter().map(|v| self.value(t, v)).collect::<Vec<_>>().join(", ")),
            (Ty::Named(flag, fs), TV::Fields(vs)) => {
                let n = self.name(t);
                if *flag == 't' {
                    format!("{}({})", n, fs.iter().zip(vs).map(|((_, t), v)| self.value(t, v)).collect::<Vec<_>>().join(", "))
                } else {
                    format!(
                        "{} {{ {} }}",
                        n,
                        fs.iter().zip(vs).enumerate().map(|(i, ((k, t), v))| format!("{}: {}", field_ident(*flag, i, k), self.value(t, v))).collect::<Vec<_>>().join(", ")
                    )
                }
            }
            (Ty::Tuple(ts), TV::Fields(vs)) => {
                let n = self.name(t);
                format!("{}({})", n, ts.iter().zip(vs).map(|(t, v)| self.value(t, v)).collect::<Vec<_>>().join(", "))
            }
            (Ty::Enum(ns), TV::Variant(i)) => format!("{}::{}", self.name(t), variant_ident(*i, &ns[*i])),
            _ => "compile_error!(\"ill-typed generated value\")".into(),
        }
    }
}

const SUPPORT: &str = r#"
use humphrey_json::Value;
pub fn hex(b: &[u8], o: &mut String) {
    for x in b { o.push_str(&format!("{:02x}", x)); }
}
pub fn canon_json(v: &Value, o: &mut String) {
    match v {
        Value::Null => o.push('Z'),
        Value::Bool(true) => o.push('T'),
        Value::Bool(false) => o.push('F'),
        Value::Number(x) => o.push_str(&format!("n{:016x}", x.to_bits())),
        Value::String(s) => { o.push('s'); hex(s.as_bytes(), o); o.push('.'); }
        Value::Array(a) => { o.push('['); for x in a { canon_json(x, o); } o.push(']'); }
        Value::Object(m) => { o.push('{'); for (k, x) in m { o.push('s'); hex(k.as_bytes(), o); o.push('.'); canon_json(x, o); } o.push('}'); }
    }
}
pub trait Canon { fn canon(&self, o: &mut String); }
impl Canon for bool { fn canon(&self, o: &mut String) { o.push(if *self { 'T' } else { 'F' }); } }
macro_rules! ints { ($($t:ty),*) => { $( impl Canon for $t { fn canon(&self, o: &mut String) { o.push_str(&format!("i{};", self)); } } )* } }
ints!(u8, u16, u32, u64, usize, i8, i16, i32, i64);
impl Canon for f32 { fn canon(&self, o: &mut String) { o.push_str(&format!("f{:08x}", self.to_bits())); } }
impl Canon for f64 { fn canon(&self, o: &mut String) { o.push_str(&format!("d{:016x}", self.to_bits())); } }
impl Canon for String { fn canon(&self, o: &mut String) { o.push('s'); hex(self.as_bytes(), o); o.push('.'); } }
impl<T: Canon> Canon for Option<T> { fn canon(&self, o: &mut String) { match self { None => o.push('N'), Some(v) => { o.push('S'); v.canon(o); } } } }
impl<T: Canon> Canon for Vec<T> { fn canon(&self, o: &mut String) { o.push('['); for v in self { v.canon(o); } o.push(']'); } }
pub fn run(id: usize, f: fn(&mut String)) {
    let r = std::panic::catch_unwind(|| { let mut o = String::new(); f(&mut o); o });
    match r { Ok(o) => println!("{}\t{}", id, o), Err(_) => println!("{}\tPANIC", id) }
}
"#;

// ---------------------------------------------------------------- cases

#[derive(Clone)]
enum Kind {
    /// to_json / from_json(to_json) of a value of the unit's type
    Rt(TV),
    /// from_json of a foreign JSON value into the unit's type
    From(J),
    /// a json! literal (local `let`s, token trees)
    Lit(Vec<Tok>),
}

#[derive(Clone)]
struct Case {
    /// unit = one top-level type (with its nested declarations) or one literal; cases of a unit share declarations
    unit: usize,
    file: usize,
    ty: Option<Ty>,
    kind: Kind,
    dead: bool,
}

impl Case {
    fn fields(&self) -> Vec<String> {
        let mut a = String::new();
        let mut b = String::new();
        match &self.kind {
            Kind::Rt(v) => {
                ty_desc(self.ty.as_ref().unwrap(), &mut a);
                tv_desc(v, &mut b);
                vec!["c14_ty".into(), a, b]
            }
            Kind::From(j) => {
                ty_desc(self.ty.as_ref().unwrap(), &mut a);
                j_desc(j, &mut b);
                vec!["c14_from".into(), a, b]
            }
            Kind::Lit(ts) => {
                ts.iter().for_each(|t| tok_desc(t, &mut a));
                vec!["c14_lit".into(), a]
            }
        }
    }
}

/// Local variables every literal function declares (expressions may refer to them).
const LIT_PRELUDE: &str = "    let x0: u8 = 7; let x1: i64 = -42; let x2: f64 = 2.5; let k0 = \"key zero\"; let k1 = String::from(\"k\\u{e9}y\"); let j0 = Value::Bool(true); let o0: Option<u16> = None;\n";

struct Rendered {
    files: Vec<(String, String)>,
    /// (file name, first line, last line, case indices owning these lines)
    spans: Vec<(String, usize, usize, Vec<usize>)>,
}

fn render_crate(cases: &[Case], nfiles: usize) -> Rendered {
    let mut files = Vec::new();
    let mut spans = Vec::new();
    let mut main = String::from("#![allow(warnings)]\nmod support;\n");
    let mut calls = String::new();
    for f in 0..nfiles {
        let fname = format!("p{}", f);
        let mut src = String::from("#![allow(warnings)]\nuse humphrey_json::prelude::*;\nuse humphrey_json::Value;\nuse crate::support::*;\n");
        let mut line = src.lines().count() + 1;
        let mut push = |src: &mut String, text: &str, owners: Vec<usize>, spans: &mut Vec<(String, usize, usize, Vec<usize>)>| {
            let n = text.lines().count();
            spans.push((format!("src/{}.rs", fname), line, line + n.saturating_sub(1), owners));
            src.push_str(text);
            line += n;
        };
        let mut units: Vec<usize> = cases.iter().filter(|c| c.file == f && !c.dead).map(|c| c.unit).collect();
        units.dedup();
        for u in units {
            let idx: Vec<usize> = (0..cases.len()).filter(|&i| cases[i].unit == u && !cases[i].dead).collect();
            let mut d = Decls { prefix: format!("T{}", u), memo: HashMap::new(), src: String::new() };
            let mut fns: Vec<(usize, String)> = Vec::new();
            for &i in &idx {
                let c = &cases[i];
                let mut s = format!("pub fn case_{}(o: &mut String) {{\n", i);
                match &c.kind {
                    Kind::Rt(v) => {
                        let t = c.ty.as_ref().unwrap();
                        let n = d.name(t);
                        s += &format!("    let v: {} = {};\n", n, d.value(t, v));
                        s += "    let j = IntoJson::to_json(&v);\n    canon_json(&j, o);\n    o.push('|');\n";
                        s += &format!("    match <{} as FromJson>::from_json(&j) {{ Ok(w) => w.canon(o), Err(_) => o.push_str(\"ERR\") }}\n", n);
                    }
                    Kind::From(j) => {
                        let n = d.name(c.ty.as_ref().unwrap());
                        s += &format!("    let j: Value = {};\n", rs_json(j));
                        s += &format!("    match <{} as FromJson>::from_json(&j) {{ Ok(w) => w.canon(o), Err(_) => o.push_str(\"ERR\") }}\n", n);
                    }
                    Kind::Lit(ts) => {
                        s += LIT_PRELUDE;
                        let mut body = String::new();
                        rs_toks(ts, &mut body);
                        s += &format!("    let v = json!( {});\n    canon_json(&v, o);\n", body);
                    }
                }
                s += "}\n";
                fns.push((i, s));
                calls += &format!("    support::run({}, {}::case_{});\n", i, fname, i);
            }
            if !d.src.is_empty() {
                let text = d.src.clone();
                push(&mut src, &text, idx.clone(), &mut spans);
            }
            for (i, s) in fns {
                push(&mut src, &s, vec![i], &mut spans);
            }
        }
        main += &format!("mod {};\n", fname);
        files.push((format!("src/{}.rs", fname), src));
    }
    main += "fn main() {\n    std::panic::set_hook(Box::new(|_| {}));\n";
    main += &calls;
    main += "}\n";
    files.push(("src/main.rs".into(), main));
    files.push(("src/support.rs".into(), format!("#![allow(warnings)]{}", SUPPORT)));
    Rendered { files, spans }
}

fn verif_root() -> PathBuf {
    // <verif>/harness/target/release/hv
    if let Ok(exe) = std::env::current_exe() {
        if let Some(root) = exe.ancestors().nth(4) {
            if root.join("harness").is_dir() {
                return root.to_path_buf();
            }
        }
    }
    let cwd = std::env::current_dir().unwrap();
    if cwd.ends_with("harness") { cwd.parent().unwrap().to_path_buf() } else { cwd }
}

/// Build and run the crate for these cases; returns the output per case index.
fn build_and_run(dir_name: &str, cases: &mut Vec<Case>, nfiles: usize, log: &mut Vec<String>) -> HashMap<usize, String> {
    let root = verif_root();
    let dir = root.join("work").join(dir_name);
    let target = root.join("work").join("c14_target");
    std::fs::create_dir_all(dir.join("src")).unwrap();
    std::fs::create_dir_all(dir.join(".cargo")).unwrap();
    let (repo_dep, repo_dir) = match std::env::var("HUMPHREY_REPO") {
        Ok(r) => (format!("{}/humphrey-json", r), PathBuf::from(r)),
        Err(_) => ("../../../repo/humphrey-json".to_string(), root.join("..").join("repo")),
    };
    std::fs::write(
        dir.join("Cargo.toml"),
        format!(
            "[package]\nname = \"c14_gen\"\nversion = \"0.1.0\"\nedition = \"2021\"\n\n[workspace]\n\n[dependencies]\nhumphrey_json = {{ path = \"{}\" }}\n\n[profile.release]\nopt-level = 0\ndebug = 0\noverflow-checks = true\ndebug-assertions = true\npanic = \"unwind\"\nincremental = true\ncodegen-units = 64\n",
            repo_dep
        ),
    )
    .unwrap();
    std::fs::write(dir.join(".cargo").join("config.toml"), "[net]\noffline = true\n").unwrap();
    if !dir.join("Cargo.lock").exists() {
        let _ = std::fs::copy(repo_dir.join("Cargo.lock"), dir.join("Cargo.lock"));
    }
    let mut results = HashMap::new();
    for round in 0..6 {
        // stale program files of an earlier, larger batch must not linger
        if let Ok(rd) = std::fs::read_dir(dir.join("src")) {
            for e in rd.flatten() {
                let _ = std::fs::remove_file(e.path());
            }
        }
        let r = render_crate(cases, nfiles);
        for (name, text) in &r.files {
            std::fs::write(dir.join(name), text).unwrap();
        }
        let out = Command::new("cargo")
            .args(["build", "--offline", "--release", "--quiet"])
            .current_dir(&dir)
            .env("CARGO_TARGET_DIR", &target)
            .env("CARGO_NET_OFFLINE", "true")
            .env_remove("RUSTFLAGS")
            .output()
            .expect("cargo");
        if out.status.success() {
            let run = Command::new(target.join("release").join("c14_gen")).output().expect("run generated program");
            let text = String::from_utf8_lossy(&run.stdout).to_string();
            for line in text.lines() {
                if let Some((id, rest)) = line.split_once('\t') {
                    if let Ok(id) = id.parse::<usize>() {
                        results.insert(id, rest.to_string());
                    }
                }
            }
            if !run.status.success() {
                log.push(format!("generated program exited with {:?}", run.status.code()));
            }
            for (i, c) in cases.iter().enumerate() {
                if !c.dead && !results.contains_key(&i) {
                    results.insert(i, "PANIC".into()); // the process died before printing this case
                }
            }
            return results;
        }
        // attribute the errors to cases by the source lines rustc names
        let err = String::from_utf8_lossy(&out.stderr).to_string();
        let mut hit: BTreeSet<usize> = BTreeSet::new();
        for l in err.lines() {
            if let Some(p) = l.find("--> ") {
                let loc = &l[p + 4..];
                let mut it = loc.split(':');
                if let (Some(file), Some(line)) = (it.next(), it.next()) {
                    if let Ok(line) = line.parse::<usize>() {
                        for (f, a, b, owners) in &r.spans {
                            if f == file && *a <= line && line <= *b {
                                hit.extend(owners.iter().copied());
                            }
                        }
                    }
                }
            }
        }
        log.push(format!("build round {}: {} cases named by compile errors; first error: {}", round, hit.len(), err.lines().find(|l| l.starts_with("error")).unwrap_or("")));
        if hit.is_empty() {
            // cannot attribute: everything in this crate is reported as not compiling
            for (i, c) in cases.iter_mut().enumerate() {
                if !c.dead {
                    results.insert(i, "COMPILE-ERROR".into());
                    c.dead = true;
                }
            }
            std::fs::write(dir.join("build-error.txt"), &err).ok();
            return results;
        }
        for i in hit {
            cases[i].dead = true;
            results.insert(i, "COMPILE-ERROR".into());
        }
        std::fs::write(dir.join(format!("build-error-{}.txt", round)), &err).ok();
    }
    for (i, c) in cases.iter().enumerate() {
        if !c.dead {
            results.insert(i, "COMPILE-ERROR".into());
        }
    }
    results
}

/// Replay: rebuild a one-case crate.
pub fn exec(f: &[String]) -> Option<String> {
    let case = match (f[0].as_str(), f.len()) {
        ("c14_ty", 3) => {
            let ty = P { b: f[1].as_bytes(), i: 0 }.ty()?;
            let v = P { b: f[2].as_bytes(), i: 0 }.tv()?;
            Case { unit: 0, file: 0, ty: Some(ty), kind: Kind::Rt(v), dead: false }
        }
        ("c14_from", 3) => {
            let ty = P { b: f[1].as_bytes(), i: 0 }.ty()?;
            let j = P { b: f[2].as_bytes(), i: 0 }.j()?;
            Case { unit: 0, file: 0, ty: Some(ty), kind: Kind::From(j), dead: false }
        }
        ("c14_lit", 2) => {
            let ts = P { b: f[1].as_bytes(), i: 0 }.toks(None)?;
            Case { unit: 0, file: 0, ty: None, kind: Kind::Lit(ts), dead: false }
        }
        _ => return None,
    };
    let mut cases = vec![case];
    let mut log = Vec::new();
    let r = build_and_run("c14_replay", &mut cases, 1, &mut log);
    r.get(&0).cloned()
}

// ---------------------------------------------------------------- generators

const NASTY: [&str; 40] = [
    "", " ", "a b", "\"", "\\", "a\"b\\c", "é", "日本語", "😀", "\n", "\t", "\u{0}", "{", "}", "[", "]", ":", ",", "null", "true", "/", "\u{7f}",
    "\u{2028}", "f0", "f1", "V0", "V1", "0", "key", "Key", "ke y", "\\u0041", "\\n", "'", "a,b", "{\"a\":1}", "\u{feff}", "\u{10ffff}", "ß", "type",
];

fn rand_char(rng: &mut Rng) -> char {
    loop {
        let c = match rng.below(8) {
            0..=3 => rng.range(0x20, 0x7e) as u32,
            4 => rng.range(0x00, 0x1f) as u32,
            5 => rng.range(0x80, 0x7ff) as u32,
            6 => rng.range(0x800, 0xffff) as u32,
            _ => rng.range(0x10000, 0x10ffff) as u32,
        };
        if let Some(c) = char::from_u32(c) {
            return c;
        }
    }
}

fn rand_string(rng: &mut Rng) -> String {
    if rng.chance(1, 4) {
        return rng.pick(&NASTY).to_string();
    }
    let n = rng.below(7);
    (0..n).map(|_| rand_char(rng)).collect()
}

fn gen_keys(rng: &mut Rng, n: usize, default: &str, always: bool) -> Vec<String> {
    let mut ks: Vec<String> = (0..n)
        .map(|i| {
            if !always && rng.chance(1, 2) {
                format!("{}{}", default, i)
            } else if rng.chance(1, 10) {
                rng.pick(&RAW_KEYWORDS).to_string() // a derive field / variant declared as r#keyword
            } else {
                rand_string(rng)
            }
        })
        .collect();
    // distinct keys, except for a few deliberate collisions (first-match semantics)
    let collide = n >= 2 && rng.chance(1, 25);
    for i in 1..n {
        while ks[..i].contains(&ks[i]) {
            ks[i] = format!("{}_{}", rand_string(rng), i);
        }
    }
    // near-collisions: two keys / names that differ only in ASCII case, or only by surrounding blanks (they are DIFFERENT keys)
    if n >= 2 && rng.chance(1, 3) {
        let a = rng.below(n as u64) as usize;
        let b = rng.below(n as u64) as usize;
        if a != b && !RAW_KEYWORDS.contains(&ks[a].as_str()) && !RAW_KEYWORDS.contains(&ks[b].as_str()) {
            if !ks[a].chars().any(|c| c.is_ascii_alphabetic()) { ks[a] = format!("{}Id", ks[a]); }
            let base = ks[a].clone();
            let other = match rng.below(3) {
                0 => base.to_ascii_uppercase(),
                1 => base.to_ascii_lowercase(),
                _ => format!(" {}", base),
            };
            if other != base && !ks.contains(&other) { ks[b] = other; }
        }
    }
    if collide {
        let a = rng.below(n as u64) as usize;
        let b = rng.below(n as u64) as usize;
        if a != b && !RAW_KEYWORDS.contains(&ks[a].as_str()) {
            ks[b] = ks[a].clone();
        }
    }
    ks
}

fn gen_field_ty(rng: &mut Rng, depth: usize, pool: &[Ty]) -> Ty {
    match rng.below(100) {
        0..=7 => Ty::Bool,
        8..=47 => Ty::Num(rng.below(11) as usize),
        48..=57 => Ty::Str,
        58..=69 if depth < 4 => Ty::Opt(Box::new(gen_field_ty(rng, depth + 1, pool))),
        70..=81 if depth < 4 => Ty::Vec(Box::new(gen_field_ty(rng, depth + 1, pool))),
        82..=91 if !pool.is_empty() => rng.pick(pool).clone(),
        92..=99 if depth < 2 => gen_struct_ty(rng, depth + 1, pool, 4),
        _ => Ty::Num(rng.below(11) as usize),
    }
}

fn gen_struct_ty(rng: &mut Rng, depth: usize, pool: &[Ty], maxf: u64) -> Ty {
    match rng.below(10) {
        0..=2 => {
            let n = rng.range(1, maxf) as usize;
            let ks = gen_keys(rng, n, "f", false);
            Ty::Named('d', ks.into_iter().map(|k| (k, gen_field_ty(rng, depth, pool))).collect())
        }
        3..=4 => {
            let n = rng.range(1, maxf) as usize;
            let ks = gen_keys(rng, n, "f", false);
            Ty::Named('m', ks.into_iter().map(|k| (k, gen_field_ty(rng, depth, pool))).collect())
        }
        5 => {
            let n = rng.range(1, maxf.min(6)) as usize;
            let ks = gen_keys(rng, n, "f", true);
            Ty::Named('t', ks.into_iter().map(|k| (k, gen_field_ty(rng, depth, pool))).collect())
        }
        6..=7 => {
            if rng.chance(1, 3) {
                // newtype (single-field tuple struct) over a container whose own JSON could be mistaken for the
                // wrapper array: Vec<Vec<_>>, Option<Vec<Option<_>>>, a struct of optional fields only
                let leaf = Ty::Num(rng.below(11) as usize);
                let inner = match rng.below(3) {
                    0 => Ty::Vec(Box::new(Ty::Vec(Box::new(leaf)))),
                    1 => Ty::Opt(Box::new(Ty::Vec(Box::new(Ty::Opt(Box::new(leaf)))))),
                    _ => {
                        let ks = gen_keys(rng, 2, "f", false);
                        Ty::Named('d', ks.into_iter().map(|k| (k, Ty::Opt(Box::new(Ty::Str)))).collect())
                    }
                };
                return Ty::Tuple(vec![inner]);
            }
            let n = rng.range(1, maxf.min(6)) as usize;
            Ty::Tuple((0..n).map(|_| gen_field_ty(rng, depth, pool)).collect())
        }
        _ => {
            let n = rng.range(1, maxf) as usize;
            Ty::Enum(gen_keys(rng, n, "V", false))
        }
    }
}

fn gen_int(rng: &mut Rng, k: usize) -> i128 {
    let (lo, hi) = kind_range(k);
    let p53: i128 = 1 << 53;
    let cands = [lo, hi, 0, 1, -1, lo + 1, hi - 1, p53, p53 + 1, p53 - 1, p53 + 2, p53 + 3, -p53, -p53 - 1, -p53 + 1, (1 << 24) + 1, 255, 256, -129, 1 << 63, (1 << 63) - 1, (1 << 62) + 1];
    loop {
        let v = match rng.below(16) {
            0 | 1 => *rng.pick(&cands),
            2 => lo + (rng.next() as i128 & 0x7fff_ffff_ffff_ffff) % (hi - lo + 1).max(1),
            3..=8 => lo.max(-(1 << 53)) + (rng.next() as i128 & 0x7fff_ffff_ffff_ffff) % (hi.min(1 << 53) - lo.max(-(1 << 53)) + 1).max(1),
            _ => (rng.below(200) as i128) - if lo < 0 { 100 } else { 0 },
        };
        if lo <= v && v <= hi {
            return v;
        }
    }
}

fn gen_f32(rng: &mut Rng) -> u32 {
    loop {
        let b = match rng.below(4) {
            0 => *rng.pick(&[0u32, 0x8000_0000, 0x3f80_0000, 0x7f80_0000, 0xff80_0000, 1, 0x007f_ffff, 0x0080_0000, 0x7f7f_ffff, 0x3dcc_cccd, 0x4b80_0001, 0x3eaa_aaab]),
            1 => rng.next() as u32 & 0x807f_ffff, // subnormals
            _ => rng.next() as u32,
        };
        if !f32::from_bits(b).is_nan() {
            return b;
        }
    }
}

fn gen_f64(rng: &mut Rng) -> u64 {
    loop {
        let b = match rng.below(4) {
            0 => *rng.pick(&[0u64, 1 << 63, 0x3ff0_0000_0000_0000, 0x7ff0_0000_0000_0000, 0xfff0_0000_0000_0000, 1, 0x000f_ffff_ffff_ffff, 0x7fef_ffff_ffff_ffff, 0x4340_0000_0000_0000, 0x3fb9_9999_9999_999a]),
            1 => (rng.below(4000) as f64 / 8.0 - 100.0).to_bits(),
            _ => rng.next(),
        };
        if !f64::from_bits(b).is_nan() {
            return b;
        }
    }
}

fn gen_val(rng: &mut Rng, t: &Ty) -> TV {
    match t {
        Ty::Bool => TV::Bool(rng.chance(1, 2)),
        Ty::Num(9) => TV::F32(gen_f32(rng)),
        Ty::Num(10) => TV::F64(gen_f64(rng)),
        Ty::Num(k) => TV::Int(gen_int(rng, *k)),
        Ty::Str => TV::Str(rand_string(rng)),
        Ty::Opt(t) => {
            if rng.chance(3, 10) { TV::None } else { TV::Some(Box::new(gen_val(rng, t))) }
        }
        Ty::Vec(t) => TV::Vec((0..rng.below(4)).map(|_| gen_val(rng, t)).collect()),
        Ty::Named(_, fs) => TV::Fields(fs.iter().map(|(_, t)| gen_val(rng, t)).collect()),
        Ty::Tuple(ts) => TV::Fields(ts.iter().map(|t| gen_val(rng, t)).collect()),
        Ty::Enum(ns) => TV::Variant(rng.below(ns.len() as u64) as usize),
    }
}

fn gen_num_json(rng: &mut Rng) -> u64 {
    match rng.below(8) {
        0 => (rng.below(300) as f64).to_bits(),
        1 => (-(rng.below(300) as f64)).to_bits(),
        2 => (rng.below(100000) as f64 / 16.0 - 1000.0).to_bits(),
        3 => rng.pick(&[
            255.0f64, 256.0, 255.5, 255.99, -0.5, -0.0, 127.0, 128.0, -128.0, -129.0, 65535.0, 65536.0, 4294967295.0, 4294967296.0, 2147483647.0, 2147483648.0,
            -2147483648.0, -2147483649.0, 9007199254740992.0, 9223372036854775807.0, 9223372036854775808.0, -9223372036854775808.0, 18446744073709551615.0, 18446744073709551616.0,
            1e19, 1e20, 1e300, -1e300, f64::INFINITY, f64::NEG_INFINITY, f64::NAN, f64::MAX, f64::MIN_POSITIVE, 5e-324, 0.1, 16777217.0, 3.4028234663852886e38, 3.4028235677973366e38, 3.5e38, 1e-40, 1e-46, 7e-46,
        ])
        .to_bits(),
        4 => (rng.next() as i64 as f64).to_bits(),
        _ => gen_f64(rng),
    }
}

fn gen_junk(rng: &mut Rng) -> J {
    match rng.below(7) {
        0 => J::Null,
        1 => J::Bool(rng.chance(1, 2)),
        2 => J::Num(gen_num_json(rng)),
        3 => J::Str(rand_string(rng)),
        4 => J::Arr((0..rng.below(3)).map(|_| gen_junk(rng)).collect()),
        5 => J::Obj((0..rng.below(3)).map(|_| (rand_string(rng), gen_junk(rng))).collect()),
        _ => J::Arr(Vec::new()),
    }
}

/// A JSON value shaped more or less like `t`: missing / extra / duplicate / reordered members, wrong
/// lengths, numbers outside the target type.
fn gen_json_for(rng: &mut Rng, t: &Ty) -> J {
    if rng.chance(1, 12) {
        return gen_junk(rng);
    }
    match t {
        Ty::Bool => J::Bool(rng.chance(1, 2)),
        Ty::Num(_) => J::Num(gen_num_json(rng)),
        Ty::Str => J::Str(rand_string(rng)),
        Ty::Opt(t) => {
            if rng.chance(3, 10) { J::Null } else { gen_json_for(rng, t) }
        }
        Ty::Vec(t) => J::Arr((0..rng.below(4)).map(|_| gen_json_for(rng, t)).collect()),
        Ty::Named(_, fs) => {
            let mut m: Vec<(String, J)> = Vec::new();
            for (k, t) in fs {
                if rng.chance(9, 10) {
                    m.push((k.clone(), gen_json_for(rng, t)));
                }
                if rng.chance(1, 12) {
                    m.push((rand_string(rng), gen_junk(rng)));
                }
                if rng.chance(1, 12) {
                    m.push((k.clone(), gen_json_for(rng, t))); // duplicate: the first one counts
                }
            }
            if rng.chance(1, 4) && m.len() >= 2 {
                let a = rng.below(m.len() as u64) as usize;
                let b = rng.below(m.len() as u64) as usize;
                m.swap(a, b);
            }
            J::Obj(m)
        }
        Ty::Tuple(ts) => {
            let mut a: Vec<J> = ts.iter().map(|t| gen_json_for(rng, t)).collect();
            match rng.below(10) {
                0 => {
                    a.pop();
                }
                1 => a.push(gen_junk(rng)),
                _ => (),
            }
            J::Arr(a)
        }
        Ty::Enum(ns) => {
            if rng.chance(5, 6) { J::Str(rng.pick(ns).clone()) } else { J::Str(rand_string(rng)) }
        }
    }
}

fn num(x: f64) -> J {
    J::Num(x.to_bits())
}

/// An embedded Rust expression and the value `Value::from` gives it.
fn gen_expr(rng: &mut Rng) -> Tok {
    let e = |s: &str, v: J| Tok::Expr(s.to_string(), v);
    match rng.below(36) {
        0 => e("1", num(1.0)),
        1 => e("-1", num(-1.0)),
        2 => e("250u8", num(250.0)),
        3 => e("-3i32", num(-3.0)),
        4 => e("2.5", num(2.5)),
        5 => e("-0.0", num(-0.0)),
        6 => e("1e10", num(1e10)),
        7 => e("1.5f32", num(1.5)),
        8 => e("true", J::Bool(true)),
        9 => e("false", J::Bool(false)),
        10 => e("x0", num(7.0)),
        11 => e("(x0)", num(7.0)),
        12 => e("x0 + 1", num(8.0)),
        13 => e("&x0", num(7.0)),
        14 => e("x1", num(-42.0)),
        15 => e("-x1", num(42.0)),
        16 => e("x2 * 2.0", num(5.0)),
        17 => e("Some(3u8)", num(3.0)),
        18 => e("None::<bool>", J::Null),
        19 => e("o0", J::Null),
        20 => e("vec![1u8, 2u8]", J::Arr(vec![num(1.0), num(2.0)])),
        21 => e("Vec::<String>::new()", J::Arr(vec![])),
        22 => e("j0.clone()", J::Bool(true)),
        23 => e("std::cmp::max(1u8, 2u8)", num(2.0)),
        24 => e("if x0 > 3 { 10u16 } else { 20u16 }", num(10.0)),
        25 => e("1 < 2", J::Bool(true)),
        26 => e("String::from(\"owned\")", J::Str("owned".into())),
        27 => e("k0", J::Str("key zero".into())),
        28 => e("k1.clone()", J::Str("kéy".into())),
        29 => e("(\"paren\")", J::Str("paren".into())),
        30 => e("9007199254740993u64", num(9007199254740992.0)),
        31 => e("u64::MAX", num(18446744073709551616.0)),
        32 => e("Value::Null", J::Null),
        33 => e("Value::Array(vec![Value::Null])", J::Arr(vec![J::Null])),
        34 => e("Some(Some(false))", J::Bool(false)),
        _ => Tok::Lit(rand_string(rng)),
    }
}

fn gen_key(rng: &mut Rng) -> Tok {
    match rng.below(10) {
        0 => Tok::Expr("k0".into(), J::Str("key zero".into())),
        1 => Tok::Expr("k1".into(), J::Str("kéy".into())),
        2 => Tok::Expr("(k0)".into(), J::Str("key zero".into())),
        _ => Tok::Lit(rand_string(rng)),
    }
}

/// A literal of the documented grammar as a token tree; `budget` bounds the size.
fn gen_lit(rng: &mut Rng, depth: usize, budget: &mut i64) -> Tok {
    *budget -= 1;
    let kind = if depth == 0 || *budget <= 0 { rng.below(4) } else { rng.below(9) };
    match kind {
        0 => Tok::Null,
        1..=3 => gen_expr(rng),
        4..=6 => {
            let n = rng.below(5);
            let mut ts = Vec::new();
            for i in 0..n {
                if i > 0 {
                    ts.push(Tok::Comma);
                }
                let forced_null = rng.chance(1, 5);
                ts.push(if forced_null { Tok::Null } else { gen_lit(rng, depth - 1, budget) });
            }
            if n > 0 && rng.chance(1, 3) {
                ts.push(Tok::Comma);
            }
            Tok::Group(false, ts)
        }
        _ => {
            let n = rng.below(5);
            let mut ts = Vec::new();
            for i in 0..n {
                if i > 0 {
                    ts.push(Tok::Comma);
                }
                ts.push(gen_key(rng));
                ts.push(Tok::Colon);
                ts.push(if rng.chance(1, 5) { Tok::Null } else { gen_lit(rng, depth - 1, budget) });
            }
            if n > 0 && rng.chance(1, 3) {
                ts.push(Tok::Comma);
            }
            Tok::Group(true, ts)
        }
    }
}

/// A chain that reaches nesting depth `d` exactly.
fn gen_deep(rng: &mut Rng, d: usize) -> Tok {
    let mut t = if rng.chance(1, 2) { Tok::Null } else { gen_expr(rng) };
    for _ in 0..d {
        t = if rng.chance(1, 2) {
            let mut ts = vec![];
            if rng.chance(1, 2) {
                ts.push(Tok::Null);
                ts.push(Tok::Comma);
            }
            ts.push(t);
            if rng.chance(1, 2) {
                ts.push(Tok::Comma);
                ts.push(gen_expr(rng));
            }
            Tok::Group(false, ts)
        } else {
            let mut ts = vec![gen_key(rng), Tok::Colon, t];
            if rng.chance(1, 2) {
                ts.push(Tok::Comma);
            }
            Tok::Group(true, ts)
        };
    }
    t
}

/// Outside the documented grammar but accepted by the munchers: surplus commas between elements, and a
/// missing comma after `null` or after a group.
fn mutate_commas(rng: &mut Rng, t: &Tok) -> Tok {
    match t {
        Tok::Group(brace, ts) => {
            let mut o: Vec<Tok> = Vec::new();
            if !ts.is_empty() && rng.chance(1, 4) {
                o.push(Tok::Comma);
            }
            let mut i = 0;
            while i < ts.len() {
                let cur = &ts[i];
                let is_value = if *brace { i >= 1 && matches!(ts[i - 1], Tok::Colon) } else { !matches!(cur, Tok::Comma) };
                o.push(mutate_commas(rng, cur));
                if matches!(cur, Tok::Comma) && rng.chance(1, 4) {
                    o.push(Tok::Comma);
                }
                if is_value && matches!(cur, Tok::Null | Tok::Group(..)) && i + 1 < ts.len() && matches!(ts[i + 1], Tok::Comma) && rng.chance(1, 3) {
                    i += 1;
                }
                i += 1;
            }
            Tok::Group(*brace, o)
        }
        other => other.clone(),
    }
}

fn contains_null_before_more(t: &Tok) -> bool {
    match t {
        Tok::Group(brace, ts) => {
            (!*brace && ts.iter().enumerate().any(|(i, x)| matches!(x, Tok::Null) && ts[i + 1..].iter().any(|y| !matches!(y, Tok::Comma))))
                || ts.iter().any(contains_null_before_more)
        }
        _ => false,
    }
}

fn depth_of(t: &Tok) -> usize {
    match t {
        Tok::Group(_, ts) => 1 + ts.iter().map(depth_of).max().unwrap_or(0),
        _ => 0,
    }
}

pub fn gen(out: &mut Out, thorough: bool, seed: u64) {
    let mut rng = Rng::new(seed ^ 0xC14);
    let batches = if thorough { 32 } else { 2 };
    let mut log: Vec<String> = Vec::new();
    let t0 = std::time::Instant::now();
    for batch in 0..batches {
        let mut cases: Vec<Case> = Vec::new();
        let mut unit = 0usize;
        let programs = 90;
        // generated programs: 1..6 top-level types each; later types may use the earlier ones as field types
        for file in 0..programs {
            let ntypes = rng.range(1, 6) as usize;
            let mut pool: Vec<Ty> = Vec::new();
            for _ in 0..ntypes {
                let ty = if batch == 0 && file == 0 && pool.is_empty() {
                    // fixed probe: the two representation limits of Value
                    Ty::Named('d', vec![("big".into(), Ty::Num(3)), ("oo".into(), Ty::Opt(Box::new(Ty::Opt(Box::new(Ty::Num(0))))))])
                } else {
                    gen_struct_ty(&mut rng, 0, &pool, 8)
                };
                let nvals = 2;
                for n in 0..nvals {
                    let v = if batch == 0 && file == 0 && pool.is_empty() {
                        if n == 0 {
                            TV::Fields(vec![TV::Int((1 << 53) + 1), TV::Some(Box::new(TV::Some(Box::new(TV::Int(1)))))])
                        } else {
                            TV::Fields(vec![TV::Int(1 << 53), TV::Some(Box::new(TV::None))])
                        }
                    } else {
                        gen_val(&mut rng, &ty)
                    };
                    cases.push(Case { unit, file, ty: Some(ty.clone()), kind: Kind::Rt(v), dead: false });
                }
                let j = gen_json_for(&mut rng, &ty);
                cases.push(Case { unit, file, ty: Some(ty.clone()), kind: Kind::From(j), dead: false });
                unit += 1;
                pool.push(ty);
            }
        }
        // json! literals, several per file
        let lit_files = 12;
        let per_file = 40;
        for lf in 0..lit_files {
            for n in 0..per_file {
                let toks: Vec<Tok> = if batch == 0 && lf == 0 && n < 4 {
                    match n {
                        0 => vec![Tok::Group(false, vec![Tok::Null, Tok::Comma, Tok::Expr("1".into(), num(1.0)), Tok::Comma, Tok::Expr("2".into(), num(2.0))])],
                        1 => vec![Tok::Null],
                        2 => vec![],
                        _ => vec![Tok::Group(true, vec![])],
                    }
                } else {
                    let t = match rng.below(10) {
                        0 => {
                            let d = rng.range(3, 6) as usize;
                            gen_deep(&mut rng, d)
                        }
                        _ => {
                            let mut budget = rng.range(2, 40) as i64;
                            gen_lit(&mut rng, 6, &mut budget)
                        }
                    };
                    let t = if rng.chance(1, 6) { mutate_commas(&mut rng, &t) } else { t };
                    vec![t]
                };
                cases.push(Case { unit, file: programs + lf, ty: None, kind: Kind::Lit(toks), dead: false });
                unit += 1;
            }
        }
        let nfiles = programs + lit_files;
        let results = build_and_run("c14_gen", &mut cases, nfiles, &mut log);
        for (i, c) in cases.iter().enumerate() {
            let f = c.fields();
            let r = results.get(&i).cloned().unwrap_or_else(|| "MISSING".into());
            match &c.kind {
                Kind::Rt(_) => {
                    let how = match c.ty.as_ref().unwrap() {
                        Ty::Named('d', _) => "named-derive",
                        Ty::Named('m', _) => "named-json_map",
                        Ty::Named(_, _) => "tuple-json_map",
                        Ty::Tuple(_) => "tuple-derive",
                        _ => "enum-derive",
                    };
                    out.count(&format!("ty[{}]", how));
                    let rt_ok = r.split_once('|').map(|(_, rt)| rt == f[2]).unwrap_or(false);
                    out.count(if r == "COMPILE-ERROR" || r == "PANIC" { "roundtrip=FAILED-TO-RUN" } else if rt_ok { "roundtrip=equal" } else { "roundtrip=different" });
                }
                Kind::From(_) => out.count(&format!("from={}", if r == "ERR" { "Err" } else if r == "PANIC" || r == "COMPILE-ERROR" { "FAILED-TO-RUN" } else { "Ok" })),
                Kind::Lit(ts) => {
                    out.count(&format!("lit[depth={}]", ts.first().map(depth_of).unwrap_or(0)));
                    if ts.first().map(contains_null_before_more).unwrap_or(false) {
                        out.count("lit[array has null before further elements]");
                    }
                }
            }
            if r == "COMPILE-ERROR" {
                out.count("COMPILE-ERROR");
            }
            let fr: Vec<&str> = f.iter().map(|s| s.as_str()).collect();
            out.case(&fr, &r, true);
        }
        out.count("batches");
    }
    out.extra.insert("build_log".into(), log.join(" || "));
    out.extra.insert("generator_wall_s".into(), format!("{:.1}", t0.elapsed().as_secs_f64()));
    out.extra.insert("batch_layout".into(), "90 program files x 1..6 top-level types (2 values + 1 foreign JSON each) + 12 files x 40 json! literals".into());
}
