//! C05: `humphrey::krauss::wildcard_match`, and `String::route_matches` (the entry point the router uses), on
//! exhaustive small scopes and biased random pairs.
use crate::common::*;
use humphrey::krauss::wildcard_match;
use humphrey::route::Route;

/// Re-execute one case (`fn`, args…) on the implementation.
pub fn exec(f: &[String]) -> Option<String> {
    match (f[0].as_str(), f.len()) {
        ("glob", 3) => {
            let p = String::from_utf8(unhex(&f[1])).ok()?;
            let t = String::from_utf8(unhex(&f[2])).ok()?;
            Some(match guarded(|| wildcard_match(&p, &t)) {
                Ok(true) => "1".into(),
                Ok(false) => "0".into(),
                Err(_) => "PANIC".into(),
            })
        }
        ("route", 3) => {
            let p = String::from_utf8(unhex(&f[1])).ok()?;
            let t = String::from_utf8(unhex(&f[2])).ok()?;
            Some(match guarded(|| p.route_matches(&t)) {
                Ok(true) => "1".into(),
                Ok(false) => "0".into(),
                Err(_) => "PANIC".into(),
            })
        }
        _ => None,
    }
}

fn run(out: &mut Out, p: &str, t: &str) {
    // the router's entry point: same pair through `route_matches`; written as its own case when the pair is in the
    // dense part of the scope (short pattern with a literal and a wildcard) or whenever it answers differently
    let via_route = exec(&["route".into(), hex(p.as_bytes()), hex(t.as_bytes())]).unwrap();
    let direct = exec(&["glob".into(), hex(p.as_bytes()), hex(t.as_bytes())]).unwrap();
    let short = p.chars().count() <= 5 && p.contains('*') && p.chars().any(|c| c != '*');
    if via_route != direct {
        out.count("route_matches-differs-from-wildcard_match");
    }
    if short || via_route != direct || p.len() > 12 {
        out.count(&format!("route:result={}", via_route));
        out.case(&["route", &hex(p.as_bytes()), &hex(t.as_bytes())], &via_route, true);
    }
    let impl_out = exec(&["glob".into(), hex(p.as_bytes()), hex(t.as_bytes())]).unwrap();
    let impl_out = impl_out.as_str();
    let stars = p.chars().filter(|c| *c == '*').count();
    let lits = p.chars().count() - stars;
    out.count(&format!("stars={}", stars.min(4)));
    out.count(&format!("result={}", impl_out));
    out.case(&["glob", &hex(p.as_bytes()), &hex(t.as_bytes())], impl_out, stars >= 1 && lits >= 1);
}

fn all_strings(alpha: &[char], max: usize) -> Vec<String> {
    let mut res = vec![String::new()];
    let mut layer = vec![String::new()];
    for _ in 0..max {
        let mut next = Vec::new();
        for s in &layer {
            for c in alpha {
                let mut x = s.clone();
                x.push(*c);
                next.push(x);
            }
        }
        res.extend(next.iter().cloned());
        layer = next;
    }
    res
}

pub fn gen(out: &mut Out, thorough: bool, seed: u64) {
    let (pl, tl) = if thorough { (8, 10) } else { (6, 8) };
    // exhaustive block of the property's quantifier
    let pats = all_strings(&['*', 'a', 'b'], pl);
    let texts = all_strings(&['a', 'b'], tl);
    for p in &pats {
        for t in &texts {
            run(out, p, t);
        }
    }
    out.extra.insert("exhaustive_block".into(), format!("patterns<={} over {{*,a,b}} x texts<={} over {{a,b}}", pl, tl));
    // the same with a two-byte and a four-byte character substituted
    let pats2 = all_strings(&['*', 'é', '😀'], pl - 1);
    let texts2 = all_strings(&['é', '😀'], tl - 1);
    for p in &pats2 {
        for t in &texts2 {
            run(out, p, t);
        }
    }
    // `*` as an ordinary character of the text
    let pats3 = all_strings(&['*', 'a'], 5);
    let texts3 = all_strings(&['*', 'a'], 6);
    for p in &pats3 {
        for t in &texts3 {
            run(out, p, t);
        }
    }
    // characters that are special to OTHER layers (percent escapes, query, fragment, dot segments, separators): here
    // they are ordinary characters and match only themselves
    let pats4 = all_strings(&['*', 'a', '%', '6', '1'], if thorough { 5 } else { 4 });
    let texts4 = all_strings(&['a', '%', '6', '1'], if thorough { 6 } else { 5 });
    for p in &pats4 {
        for t in &texts4 {
            run(out, p, t);
        }
    }
    const OTHER: &[&str] = &["%2F", "%2f", "%20", "%25", "%", "%4", "%zz", "+", " ", "?", "#", "&", "=", ".", "..", "/", "//", "\\", ":", ";",
                             "%C3%A9", "é", "%00", "\u{0}", "a", "b", "A", "~", "\t"];
    for a in OTHER {
        for b in OTHER {
            for c in OTHER {
                let t = format!("{}{}{}", a, b, c);
                for p in [format!("{}{}{}", a, b, c), format!("{}*{}", a, c), format!("*{}", c), format!("{}*", a), format!("{}{}*", a, b),
                          format!("/{}/*", a), format!("*{}*", b), a.to_string(), "*".to_string()] {
                    run(out, &p, &t);
                    run(out, &p, &format!("/{}/{}", a, c));
                }
            }
        }
    }
    // random long pairs biased towards self-overlapping literals
    let mut rng = Rng::new(seed);
    let n = if thorough { 3_000_000 } else { 100_000 };
    let alph: [char; 4] = ['a', 'b', 'é', '/'];
    for _ in 0..n {
        let unit_len = rng.range(1, 3) as usize;
        let width = 2 + rng.below(3) as usize;
        let unit: String = (0..unit_len).map(|_| *rng.pick(&alph[..width])).collect();
        let mut p = String::new();
        let mut t = String::new();
        let segs = rng.range(1, 5);
        for _ in 0..segs {
            if rng.chance(2, 3) {
                p.push('*');
                // what the star stands for: repeats of the unit, possibly a near miss
                for _ in 0..rng.below(4) {
                    t.push_str(&unit);
                }
                if rng.chance(1, 4) {
                    t.push(*rng.pick(&alph));
                }
            }
            let reps = rng.range(1, 3);
            for _ in 0..reps {
                p.push_str(&unit);
                t.push_str(&unit);
            }
            if rng.chance(1, 3) {
                let c = *rng.pick(&alph);
                p.push(c);
                if rng.chance(5, 6) { t.push(c) } else { t.push(*rng.pick(&alph)) }
            }
        }
        if rng.chance(1, 4) {
            p.push('*');
            for _ in 0..rng.below(3) {
                t.push(*rng.pick(&alph));
            }
        }
        if rng.chance(1, 8) {
            // drop a character of the text somewhere
            let cs: Vec<char> = t.chars().collect();
            if !cs.is_empty() {
                let k = rng.below(cs.len() as u64) as usize;
                t = cs.iter().enumerate().filter(|(i, _)| *i != k).map(|(_, c)| *c).collect();
            }
        }
        run(out, &p, &t);
    }
}
