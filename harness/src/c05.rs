//! C05: `humphrey::krauss::wildcard_match`, and `String::route_matches` (the entry point the router uses), on
//! exhaustive small scopes and biased random pairs.
use crate::common::*;
use humphrey::krauss::wildcard_match;
use humphrey::route::Route;

/// Re-execute one case (`fn`, args…) on the implementation.
pub fn exec(f: &[String]) -> Option<String> {
    match (f[0].as_str(), f.len()) {
        ("glob", 3) => {
            let p = String::from_utf8(unhex(&f[1])).ok()?;
            let t = String::from_utf8(unhex(&f[2])).ok()?;
            Some(match guarded(|| wildcard_match(&p, &t)) {
                Ok(true) => "1".into(),
                Ok(false) => "0".into(),
                Err(_) => "PANIC".into(),
            })
        }
        ("route", 3) => {
            let p = String::from_utf8(unhex(&f[1])).ok()?;
            let t = String::from_utf8(unhex(&f[2])).ok()?;
            Some(match guarded(|| p.route_matches(&t)) {
                Ok(true) => "1".into(),
                Ok(false) => "0".into(),
                Err(_) => "PANIC".into(),
            })
        }
        ("globr", 3) | ("router", 3) => {
            let p = expand(&f[1])?;
            let t = expand(&f[2])?;
            let via_route = f[0] == "router";
            Some(match guarded(|| if via_route { p.route_matches(&t) } else { wildcard_match(&p, &t) }) {
                Ok(true) => "1".into(),
                Ok(false) => "0".into(),
                Err(_) => "PANIC".into(),
            })
        }
        _ => None,
    }
}

// ---------------------------------------------------------------------------------------------
// long pairs: run-length encoded patterns and texts

/// A text as run-length segments: `(count, unit)` = `count` copies of `unit`.
type Rle = Vec<(usize, String)>;

fn seg(n: usize, u: &str) -> (usize, String) {
    (n, u.to_string())
}

/// Case-line form: segments joined by `,`; `R<count>*<hex>` for a repeated unit, plain `<hex>` for one copy. The Lean
/// driver expands the same encoding (`Driver/C05.lean: expand`).
fn enc(r: &Rle) -> String {
    r.iter().filter(|(n, u)| *n > 0 && !u.is_empty()).map(|(n, u)| if *n == 1 { hex(u.as_bytes()) } else { format!("R{}*{}", n, hex(u.as_bytes())) }).collect::<Vec<_>>().join(",")
}

fn expand(field: &str) -> Option<String> {
    let mut s = String::new();
    for part in field.split(',') {
        let (n, h) = match part.strip_prefix('R') {
            Some(rest) => {
                let (n, h) = rest.split_once('*')?;
                (n.parse::<usize>().ok()?, h)
            }
            None => (1, part),
        };
        if h.len() % 2 != 0 || !h.bytes().all(|c| c.is_ascii_hexdigit()) {
            return None;
        }
        let u = String::from_utf8(unhex(h)).ok()?;
        s.reserve(n * u.len());
        for _ in 0..n {
            s.push_str(&u);
        }
    }
    Some(s)
}

fn rle_chars(r: &Rle) -> usize {
    r.iter().map(|(n, u)| n * u.chars().count()).sum()
}

fn bucket(n: usize) -> &'static str {
    match n {
        0..=99 => "<100",
        100..=999 => "100..999",
        1000..=9999 => "1e3..1e4",
        10_000..=99_999 => "1e4..1e5",
        100_000..=999_999 => "1e5..1e6",
        1_000_000..=9_999_999 => "1e6..1e7",
        _ => ">=1e7",
    }
}

/// One long pair, asked through both entry points (`globr` = `wildcard_match`, `router` = `String::route_matches`).
fn run_rle(out: &mut Out, family: &str, p: &Rle, t: &Rle) {
    let (pe, te) = (enc(p), enc(t));
    let stars: usize = p.iter().map(|(n, u)| n * u.matches('*').count()).sum();
    let pchars = rle_chars(p);
    let direct = exec(&["globr".into(), pe.clone(), te.clone()]).unwrap();
    let via_route = exec(&["router".into(), pe.clone(), te.clone()]).unwrap();
    if via_route != direct {
        out.count("route_matches-differs-from-wildcard_match");
    }
    out.count(&format!("long:{}:result={}", family, direct));
    out.count(&format!("long:text-chars={}", bucket(rle_chars(t))));
    out.count(&format!("long:pattern-chars={}", bucket(pchars)));
    out.count(&format!("long:stars={}", bucket(stars)));
    let nontrivial = stars >= 1 && pchars > stars;
    out.case(&["globr", &pe, &te], &direct, nontrivial);
    out.case(&["router", &pe, &te], &via_route, nontrivial);
}

fn run(out: &mut Out, p: &str, t: &str) {
    // the router's entry point: same pair through `route_matches`; written as its own case when the pair is in the
    // dense part of the scope (short pattern with a literal and a wildcard) or whenever it answers differently
    let via_route = exec(&["route".into(), hex(p.as_bytes()), hex(t.as_bytes())]).unwrap();
    let direct = exec(&["glob".into(), hex(p.as_bytes()), hex(t.as_bytes())]).unwrap();
    let short = p.chars().count() <= 5 && p.contains('*') && p.chars().any(|c| c != '*');
    if via_route != direct {
        out.count("route_matches-differs-from-wildcard_match");
    }
    if short || via_route != direct || p.len() > 12 {
        out.count(&format!("route:result={}", via_route));
        out.case(&["route", &hex(p.as_bytes()), &hex(t.as_bytes())], &via_route, true);
    }
    let impl_out = exec(&["glob".into(), hex(p.as_bytes()), hex(t.as_bytes())]).unwrap();
    let impl_out = impl_out.as_str();
    let stars = p.chars().filter(|c| *c == '*').count();
    let lits = p.chars().count() - stars;
    out.count(&format!("stars={}", stars.min(4)));
    out.count(&format!("result={}", impl_out));
    out.case(&["glob", &hex(p.as_bytes()), &hex(t.as_bytes())], impl_out, stars >= 1 && lits >= 1);
}

fn all_strings(alpha: &[char], max: usize) -> Vec<String> {
    let mut res = vec![String::new()];
    let mut layer = vec![String::new()];
    for _ in 0..max {
        let mut next = Vec::new();
        for s in &layer {
            for c in alpha {
                let mut x = s.clone();
                x.push(*c);
                next.push(x);
            }
        }
        res.extend(next.iter().cloned());
        layer = next;
    }
    res
}

/// Sizes and counts "well above small": around powers of two and typical limits, plus a few very large ones.
const SWEEP_SMALL: &[usize] = &[100, 128, 255, 256, 257, 1000, 1024, 4096, 8192, 10_000, 65_535, 65_536, 65_537];
const SWEEP_LARGE: &[usize] = &[100_000, 262_144, 1_000_000, (1 << 20) - 1, 1 << 20, (1 << 20) + 1, 2_000_000, (1 << 21) + 1];
const SWEEP_HUGE: &[usize] = &[(1 << 22) + 1, 10_000_000, (1 << 24) + 1];
/// units a long run is made of: one, two and four byte characters, periodic units, `*` as a text character
const UNITS: &[&str] = &["a", "é", "😀", "ab", "/x", "*"];

/// A character that differs from the last character of `s`.
fn other_than_last(s: &str) -> &'static str {
    match s.chars().last() {
        Some('z') => "y",
        _ => "z",
    }
}

/// Long pairs (DESIGN 6.5): wildcards that must absorb almost all of a long text, long self-overlapping literals after
/// a wildcard (cost = absorbed characters x partial match), hundreds to thousands of wildcards, long literal patterns,
/// and random run-length compositions; every pair through `wildcard_match` and `String::route_matches`.
fn long_pairs(out: &mut Out, thorough: bool, rng: &mut Rng) {
    // 1. a wildcard absorbs a run of N units; literal context before / between / after; true pairs and near misses
    let mut sizes: Vec<usize> = SWEEP_SMALL.iter().chain(SWEEP_LARGE.iter()).copied().collect();
    if thorough {
        sizes.extend_from_slice(SWEEP_HUGE);
    }
    let contexts: &[(&str, &str)] = &[("", ""), ("/files/", ""), ("", ".html"), ("/files/", ".html"), ("/é/", "/😀"), ("x", "x")];
    for (si, &n) in sizes.iter().enumerate() {
        for (ui, unit) in UNITS.iter().enumerate() {
            // the largest sizes: two units per size (rotating), so that the quick tier stays quick
            if n > 65_537 && (ui + si) % 3 != 0 && !(thorough && n <= (1 << 21) + 1) {
                continue;
            }
            if n > (1 << 21) + 1 && (ui + si) % 6 != 0 {
                continue;
            }
            let n_units = n / unit.chars().count().max(1);
            for (ci, (pre, suf)) in contexts.iter().enumerate() {
                // above 65537 characters: two of the six contexts per (size, unit), rotating
                if n > 65_537 && (ci + si + ui) % 3 != 0 && !thorough {
                    continue;
                }
                let star_pat: Rle = vec![seg(1, pre), seg(1, "*"), seg(1, suf)];
                let text: Rle = vec![seg(1, pre), seg(n_units, unit), seg(1, suf)];
                run_rle(out, "absorb", &star_pat, &text);
                // adjacent wildcards, and two wildcards sharing the run around a literal that occurs in it
                if (ci + si) % 2 == 1 || n <= 65_537 {
                    run_rle(out, "absorb", &vec![seg(1, pre), seg(2, "*"), seg(1, suf)], &text);
                    run_rle(out, "absorb", &vec![seg(1, pre), seg(1, "*"), seg(1, unit), seg(1, "*"), seg(1, suf)], &text);
                }
                // near misses: the text ends differently / starts differently / lacks the suffix's last character
                if !suf.is_empty() {
                    let mut cut: String = suf.to_string();
                    cut.pop();
                    run_rle(out, "absorb-miss", &star_pat, &vec![seg(1, pre), seg(n_units, unit), seg(1, &cut), seg(1, other_than_last(suf))]);
                    run_rle(out, "absorb-miss", &star_pat, &vec![seg(1, pre), seg(n_units, unit), seg(1, &cut)]);
                }
                if !pre.is_empty() && n <= 65_537 {
                    run_rle(out, "absorb-miss", &star_pat, &vec![seg(1, other_than_last(pre)), seg(1, pre), seg(n_units, unit), seg(1, suf)]);
                }
                // the run on both sides of a literal separator
                if n <= 65_537 || ci % 3 == 0 {
                    let p2: Rle = vec![seg(1, pre), seg(1, "*"), seg(1, "/-/"), seg(1, "*"), seg(1, suf)];
                    run_rle(out, "absorb", &p2, &vec![seg(1, pre), seg(n_units / 2, unit), seg(1, "/-/"), seg(n_units - n_units / 2, unit), seg(1, suf)]);
                    run_rle(out, "absorb-miss", &p2, &vec![seg(1, pre), seg(n_units / 2, unit), seg(1, "/-"), seg(n_units - n_units / 2, unit), seg(1, suf)]);
                }
            }
        }
    }
    // 2. a self-overlapping literal of k units (then a different character) after a wildcard, against n units: every
    //    one of the ~n attempts runs ~k characters into the literal before it fails; k x n from 10^4 to 10^8
    let products: &[usize] = if thorough {
        &[10_000, 65_537, 100_000, 1_000_000, (1 << 20) + 1, 3_000_000, 10_000_000, (1 << 24) + 1, 30_000_000, 100_000_000, 300_000_000]
    } else {
        &[10_000, 65_537, 100_000, 1_000_000, (1 << 20) + 1, 3_000_000, 10_000_000, (1 << 24) + 1]
    };
    let ks: &[usize] = &[1, 3, 15, 100, 255, 1023, 4096, 10_000, 100_000];
    let ov_units: &[(&str, &str)] = &[("a", "b"), ("é", "ü"), ("ab", "ac"), ("😀", "😁")];
    let mut variant = 0usize;
    for (pi, &prod) in products.iter().enumerate() {
        for (ki, &k) in ks.iter().enumerate() {
            // n - k attempts of about k + 1 steps each
            let n = prod / (k + 1) + k;
            if n < 2 * k || n > 2_500_000 {
                continue;
            }
            // quick tier: from 10^6 steps on every other k, from 10^7 on every fourth (rotating with the product)
            if !thorough && ((prod >= 1_000_000 && (ki + pi) % 2 != 0) || (prod >= 10_000_000 && (ki + pi) % 4 != 0)) {
                continue;
            }
            variant += 1;
            for (ui, (u, end)) in ov_units.iter().enumerate() {
                // the costly products: one unit each (rotating)
                let costly = if thorough { prod > 30_000_000 } else { prod >= 1_000_000 };
                if costly && (ui + variant) % ov_units.len() != 0 {
                    continue;
                }
                let pre = if variant % 2 == 0 { "" } else { "/s/" };
                let pat: Rle = vec![seg(1, pre), seg(1, "*"), seg(k, u), seg(1, end)];
                run_rle(out, "overlap", &pat, &vec![seg(1, pre), seg(n, u), seg(1, end)]);
                run_rle(out, "overlap-miss", &pat, &vec![seg(1, pre), seg(n, u)]);
                if prod <= 3_000_000 || (thorough && prod <= 30_000_000) {
                    run_rle(out, "overlap-miss", &pat, &vec![seg(1, pre), seg(n, u), seg(1, other_than_last(end))]);
                    // a second wildcard after the literal, and the text going on after the match
                    run_rle(out, "overlap", &vec![seg(1, pre), seg(1, "*"), seg(k, u), seg(1, end), seg(1, "*")], &vec![seg(1, pre), seg(n, u), seg(1, end), seg(7, u)]);
                }
            }
        }
    }
    // 3. many wildcards
    let mut star_counts: Vec<usize> = vec![17, 64, 100, 128, 255, 256, 257, 1000, 1024, 4096, 65_536];
    if thorough {
        star_counts.extend_from_slice(&[65_537, 100_000, 1_000_000]);
    }
    for &s in &star_counts {
        for (x, y) in [("a", "b"), ("é", "😀"), ("/", "seg")] {
            let star_x = format!("*{}", x);
            let x_star = format!("{}*", x);
            let yyx = format!("{}{}{}", y, y, x);
            // every wildcard absorbs something / nothing; one item too few; one literal too many
            run_rle(out, "stars", &vec![seg(s, &star_x)], &vec![seg(s, &yyx)]);
            run_rle(out, "stars", &vec![seg(s, &star_x)], &vec![seg(s, x)]);
            run_rle(out, "stars-miss", &vec![seg(s, &star_x)], &vec![seg(s - 1, x)]);
            run_rle(out, "stars-miss", &vec![seg(s, &star_x)], &vec![seg(s, &yyx), seg(1, y)]);
            run_rle(out, "stars", &vec![seg(s, &x_star)], &vec![seg(s, x)]);
            run_rle(out, "stars", &vec![seg(s, &x_star)], &vec![seg(2 * s, x), seg(3, y)]);
            run_rle(out, "stars-miss", &vec![seg(s, &x_star)], &vec![seg(s - 1, x)]);
            run_rle(out, "stars-miss", &vec![seg(s, &x_star)], &vec![seg(1, y), seg(s, x)]);
            // adjacent wildcards only, then a literal
            run_rle(out, "stars", &vec![seg(s, "*")], &vec![seg(s / 2, y)]);
            run_rle(out, "stars", &vec![seg(s, "*")], &vec![]);
            run_rle(out, "stars", &vec![seg(s, "*"), seg(1, x)], &vec![seg(s, y), seg(1, x)]);
            run_rle(out, "stars-miss", &vec![seg(s, "*"), seg(1, x)], &vec![seg(s, y)]);
            run_rle(out, "stars", &vec![seg(1, x), seg(s, "*"), seg(1, x)], &vec![seg(2, x)]);
            run_rle(out, "stars-miss", &vec![seg(1, x), seg(s, "*"), seg(1, x)], &vec![seg(1, x)]);
            // many wildcards, and the last one has to absorb a long run before a self-overlapping literal
            if s <= 4096 {
                run_rle(out, "stars", &vec![seg(s, &star_x), seg(1, "*"), seg(15, y), seg(1, x)], &vec![seg(s, &yyx), seg(20_000, y), seg(1, x)]);
                run_rle(out, "stars-miss", &vec![seg(s, &star_x), seg(1, "*"), seg(15, y), seg(1, x)], &vec![seg(s, &yyx), seg(20_000, y)]);
            }
        }
    }
    // 4. long literal patterns (no wildcard, or one at an end / in the middle)
    for (si, &n) in sizes.iter().enumerate() {
        for (ui, unit) in UNITS[..5].iter().enumerate() {
            if n > 65_537 && (ui + si) % 5 != 0 {
                continue;
            }
            let m = n / unit.chars().count();
            let z = other_than_last(unit);
            run_rle(out, "literal", &vec![seg(m, unit)], &vec![seg(m, unit)]);
            run_rle(out, "literal-miss", &vec![seg(m, unit)], &vec![seg(m - 1, unit)]);
            run_rle(out, "literal-miss", &vec![seg(m, unit)], &vec![seg(m + 1, unit)]);
            run_rle(out, "literal-miss", &vec![seg(m, unit)], &vec![seg(m - 1, unit), seg(1, z)]);
            run_rle(out, "literal-star", &vec![seg(m, unit), seg(1, "*"), seg(1, z), seg(m, unit)], &vec![seg(m + 2, unit), seg(1, z), seg(m, unit)]);
            if n > 65_537 && !thorough {
                continue;
            }
            run_rle(out, "literal-miss", &vec![seg(m, unit)], &vec![seg(m / 2, unit), seg(1, z), seg(m - m / 2 - 1, unit)]);
            run_rle(out, "literal-star", &vec![seg(m, unit), seg(1, "*")], &vec![seg(m, unit)]);
            run_rle(out, "literal-star", &vec![seg(m, unit), seg(1, "*")], &vec![seg(m + 5, unit)]);
            run_rle(out, "literal-star-miss", &vec![seg(m, unit), seg(1, "*")], &vec![seg(m - 1, unit)]);
            run_rle(out, "literal-star", &vec![seg(1, "*"), seg(1, z), seg(m, unit)], &vec![seg(3, unit), seg(1, z), seg(m, unit)]);
            run_rle(out, "literal-star-miss", &vec![seg(1, "*"), seg(1, z), seg(m, unit)], &vec![seg(3, unit), seg(1, z), seg(m - 1, unit)]);
            run_rle(out, "literal-star-miss", &vec![seg(m, unit), seg(1, "*"), seg(1, z), seg(m, unit)], &vec![seg(m + 2, unit), seg(1, z), seg(m, unit), seg(1, z)]);
        }
    }
    // 5. random run-length compositions: the pattern is derived from the text segment by segment
    let counts: &[usize] = &[0, 1, 1, 2, 3, 7, 16, 100, 255, 256, 257, 1000, 1024, 4096, 65_536, 100_000];
    let pool: &[&str] = &["a", "b", "ab", "aab", "é", "😀", "/", "/a", "*", "a*", "é😀", ".", "%2F"];
    let budget: usize = if thorough { 100_000_000 } else { 3_000_000 };
    let n_random = if thorough { 60_000 } else { 3_000 };
    let mut done = 0;
    while done < n_random {
        let nseg = rng.range(1, 5) as usize;
        let mut t: Rle = Vec::new();
        let mut p: Rle = Vec::new();
        for _ in 0..nseg {
            let u = *rng.pick(pool);
            let c = *rng.pick(counts);
            t.push(seg(c, u));
            match rng.below(8) {
                0 | 1 => p.push(seg(c, u)),
                2 | 3 => p.push(seg(1, "*")),
                4 => {
                    // a wildcard followed by part of the run it stands in front of (self-overlap)
                    p.push(seg(1, "*"));
                    p.push(seg(*rng.pick(&[1, 2, 15, 100, c / 2 + 1, c]), u));
                }
                5 => {
                    p.push(seg(c / 2, u));
                    p.push(seg(1, "*"));
                }
                6 => p.push(seg(if rng.chance(1, 2) { c + 1 } else { c.saturating_sub(1) }, u)),
                _ => {
                    p.push(seg(1, "*"));
                    p.push(seg(c, u));
                    p.push(seg(rng.below(3) as usize, "*"));
                }
            }
        }
        if rng.chance(1, 4) {
            p.push(seg(1, *rng.pick(pool)));
        }
        if rng.chance(1, 4) {
            t.push(seg(1, *rng.pick(pool)));
        }
        // upper bound of the matcher's work: text characters x (longest literal run after a wildcard + 1)
        let mut longest = 0usize;
        let mut cur = 0usize;
        let mut seen_star = false;
        for (n, u) in &p {
            if u.contains('*') && *n > 0 {
                seen_star = true;
                longest = longest.max(cur);
                cur = 0;
            } else if seen_star {
                cur += n * u.chars().count();
            }
        }
        longest = longest.max(cur);
        if rle_chars(&t).saturating_mul(longest + 1) > budget || rle_chars(&p) > 400_000 {
            continue;
        }
        run_rle(out, "random", &p, &t);
        done += 1;
    }
}

pub fn gen(out: &mut Out, thorough: bool, seed: u64) {
    let (pl, tl) = if thorough { (8, 10) } else { (6, 8) };
    // exhaustive block of the property's quantifier
    let pats = all_strings(&['*', 'a', 'b'], pl);
    let texts = all_strings(&['a', 'b'], tl);
    for p in &pats {
        for t in &texts {
            run(out, p, t);
        }
    }
    out.extra.insert("exhaustive_block".into(), format!("patterns<={} over {{*,a,b}} x texts<={} over {{a,b}}", pl, tl));
    // the same with a two-byte and a four-byte character substituted
    let pats2 = all_strings(&['*', 'é', '😀'], pl - 1);
    let texts2 = all_strings(&['é', '😀'], tl - 1);
    for p in &pats2 {
        for t in &texts2 {
            run(out, p, t);
        }
    }
    // `*` as an ordinary character of the text
    let pats3 = all_strings(&['*', 'a'], 5);
    let texts3 = all_strings(&['*', 'a'], 6);
    for p in &pats3 {
        for t in &texts3 {
            run(out, p, t);
        }
    }
    // characters that are special to OTHER layers (percent escapes, query, fragment, dot segments, separators): here
    // they are ordinary characters and match only themselves
    let pats4 = all_strings(&['*', 'a', '%', '6', '1'], if thorough { 5 } else { 4 });
    let texts4 = all_strings(&['a', '%', '6', '1'], if thorough { 6 } else { 5 });
    for p in &pats4 {
        for t in &texts4 {
            run(out, p, t);
        }
    }
    const OTHER: &[&str] = &["%2F", "%2f", "%20", "%25", "%", "%4", "%zz", "+", " ", "?", "#", "&", "=", ".", "..", "/", "//", "\\", ":", ";",
                             "%C3%A9", "é", "%00", "\u{0}", "a", "b", "A", "~", "\t"];
    for a in OTHER {
        for b in OTHER {
            for c in OTHER {
                let t = format!("{}{}{}", a, b, c);
                for p in [format!("{}{}{}", a, b, c), format!("{}*{}", a, c), format!("*{}", c), format!("{}*", a), format!("{}{}*", a, b),
                          format!("/{}/*", a), format!("*{}*", b), a.to_string(), "*".to_string()] {
                    run(out, &p, &t);
                    run(out, &p, &format!("/{}/{}", a, c));
                }
            }
        }
    }
    let mut rng = Rng::new(seed);
    long_pairs(out, thorough, &mut rng);
    // random pairs biased towards self-overlapping literals
    let n = if thorough { 3_000_000 } else { 100_000 };
    let alph: [char; 4] = ['a', 'b', 'é', '/'];
    for _ in 0..n {
        let unit_len = rng.range(1, 3) as usize;
        let width = 2 + rng.below(3) as usize;
        let unit: String = (0..unit_len).map(|_| *rng.pick(&alph[..width])).collect();
        let mut p = String::new();
        let mut t = String::new();
        let segs = rng.range(1, 5);
        for _ in 0..segs {
            if rng.chance(2, 3) {
                p.push('*');
                // what the star stands for: repeats of the unit, possibly a near miss
                for _ in 0..rng.below(4) {
                    t.push_str(&unit);
                }
                if rng.chance(1, 4) {
                    t.push(*rng.pick(&alph));
                }
            }
            let reps = rng.range(1, 3);
            for _ in 0..reps {
                p.push_str(&unit);
                t.push_str(&unit);
            }
            if rng.chance(1, 3) {
                let c = *rng.pick(&alph);
                p.push(c);
                if rng.chance(5, 6) { t.push(c) } else { t.push(*rng.pick(&alph)) }
            }
        }
        if rng.chance(1, 4) {
            p.push('*');
            for _ in 0..rng.below(3) {
                t.push(*rng.pick(&alph));
            }
        }
        if rng.chance(1, 8) {
            // drop a character of the text somewhere
            let cs: Vec<char> = t.chars().collect();
            if !cs.is_empty() {
                let k = rng.below(cs.len() as u64) as usize;
                t = cs.iter().enumerate().filter(|(i, _)| *i != k).map(|(_, c)| *c).collect();
            }
        }
        run(out, &p, &t);
    }
}
