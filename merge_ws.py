#!/usr/bin/env python3
"""merge_ws.py <ws> : bring a scratch workspace's slice into /verif and /repo (cherry-pick + file copy + registration lines)."""
import subprocess, sys, os, shutil, re
ws = sys.argv[1]
W = f"/tmp/{ws}/verif"
def sh(*a, **k): return subprocess.run(a, text=True, capture_output=True, **k)
# 1. cherry-pick repo commits
commits = sh("git", "-C", "/repo", "log", "--reverse", "--format=%h", f"main..ws-{ws}").stdout.split()
mapping = {}
for c in commits:
    r = sh("git", "-C", "/repo", "cherry-pick", c)
    if r.returncode != 0:
        print("CHERRY-PICK FAILED", c, r.stdout, r.stderr); sys.exit(1)
    new = sh("git", "-C", "/repo", "log", "--format=%h", "-1").stdout.strip()
    mapping[c] = new
    print("picked", c, "->", new, sh("git", "-C", "/repo", "log", "--format=%s", "-1").stdout.strip())
# 2. copy new files
skip = re.compile(r"^(work|harness/target|harness/target-one|harness-tokio/target|lean/\.lake|replays|evidence|\.git)/|__pycache__")
for root, dirs, files in os.walk(W):
    for fn in files:
        p = os.path.join(root, fn); rel = os.path.relpath(p, W)
        if skip.search(rel): continue
        dst = os.path.join("/verif", rel)
        if not os.path.exists(dst):
            os.makedirs(os.path.dirname(dst), exist_ok=True); shutil.copy(p, dst); print("copied", rel)
# 3. registration lines
BASE = open(os.path.join(W, ".base")).read().strip() if os.path.exists(os.path.join(W, ".base")) else "207d2da"
def added_lines(rel):
    base = sh("git", "-C", "/verif", "show", f"{BASE}:{rel}").stdout.splitlines()
    cur = open(os.path.join(W, rel)).read().splitlines()
    return [l for l in cur if l not in base]
# main.rs
mr = "/verif/harness/src/main.rs"; s = open(mr).read()
for l in added_lines("harness/src/main.rs"):
    if l.strip() in s: continue
    if l.strip().startswith("mod "):
        s = s.replace("mod common;", "mod common;\n" + l.strip(), 1)
    elif "::exec(f)" in l:
        s = s.replace('        _ => None,\n    }\n}\n\nfn main', l + '\n        _ => None,\n    }\n}\n\nfn main', 1)
    elif "::gen(" in l:
        s = s.replace('        other => {', l + '\n        other => {', 1)
    else: print("UNPLACED main.rs line:", l)
open(mr, "w").write(s)
# Main.lean
ml = "/verif/lean/Main.lean"; s = open(ml).read()
for l in added_lines("lean/Main.lean"):
    m = re.search(r"import (HumphreyModel\.Driver\.(\w+))", l)
    if m and m.group(1) not in s:
        s = s.replace("\n\n/-!", f"\nimport {m.group(1)}\n\n/-!", 1)
        s = re.sub(r"\[ (.*?) \]", lambda mm: "[ " + mm.group(1) + f", {m.group(2)}.dispatch ]", s, count=1)
open(ml, "w").write(s)
# HumphreyModel.lean
rl = "/verif/lean/HumphreyModel.lean"; s = open(rl).read()
for l in open(os.path.join(W, "lean/HumphreyModel.lean")).read().splitlines():
    if l.startswith("import ") and l not in s: s += l + "\n"
open(rl, "w").write(s)
# known findings
kf = "/verif/known_findings.txt"; s = open(kf).read()
for l in added_lines("known_findings.txt"):
    for o, n in mapping.items(): l = l.replace(o, n)
    if l not in s: s += l + "\n"
open(kf, "w").write(s)
print("hooks/fixes:", mapping)
