//! C01/C04 on the tokio runtime: the real `App::run` (tokio) on a loopback port, one TCP connection per case.
//! `hvt __c01 <cases-in> <out>`: for every `conn…` line writes `W[<hex of everything the server sent, Date normalised>]`.
//! Only what a client can see is compared (the model's answer does not depend on segmentation — proved — so the
//! kernel's coalescing of our writes is harmless).
use crate::common::*;
use crate::c02t::{fnv, unhexz};
use humphrey::http::cors::Cors;
use humphrey::http::headers::HeaderType;
use humphrey::http::method::Method;
use humphrey::http::{Request, Response, StatusCode};
use humphrey::stream::Stream;
use humphrey::{App, SubApp};
use std::collections::BTreeMap;
use std::io::{Read, Write};
use std::net::{TcpListener, TcpStream};
use std::sync::Arc;
use std::time::Duration;
use tokio_util::sync::CancellationToken;

fn cors_preset(n: &str) -> Cors {
    match n {
        "1" => Cors::wildcard(),
        "2" => Cors::new().with_origin("a.com").with_origin("b.com").with_method(Method::Get).with_method(Method::Post)
            .with_header("X-A").with_header("Content-Type"),
        "3" => Cors::new().with_wildcard_origin().with_wildcard_methods(),
        _ => Cors::new(),
    }
}

fn add_route(sub: SubApp<()>, pat: &str, kind: &str, cors: &str) -> SubApp<()> {
    let k = kind.to_string();
    let sub = sub.with_route(pat, move |req: Request, _: Arc<()>| {
        let k = k.clone();
        async move {
            if let Some(id) = k.strip_prefix('i') {
                Response::new(StatusCode::OK, format!("id={}", id))
            } else if k == "e" {
                Response::new(StatusCode::OK, req.content.clone().unwrap_or_default())
            } else if k == "m" {
                Response::empty(StatusCode::OK)
            } else if let Some(code) = k.strip_prefix('z') {
            // a handler may answer a status that usually has no content WITH content: it is framed like any other response
            let status = match code { "204" => StatusCode::NoContent, "304" => StatusCode::NotModified, "100" => StatusCode::Continue, _ => StatusCode::OK };
            Response::new(status, format!("z{}", code))
        } else if let Some(which) = k.strip_prefix('h') {
                let mut r = Response::new(StatusCode::OK, format!("h{}", which));
                if which.contains('o') { r = r.with_header(HeaderType::AccessControlAllowOrigin, "https://h.example"); }
                if which.contains('m') { r = r.with_header(HeaderType::AccessControlAllowMethods, "PATCH"); }
                if which.contains('h') { r = r.with_header(HeaderType::AccessControlAllowHeaders, "X-H"); }
                if which.contains('x') { r = r.with_header("X-Custom", "1").with_header(HeaderType::Server, "mine"); }
                r
            } else {
                std::panic::resume_unwind(Box::new("handler panic"))
            }
        }
    });
    if cors != "0" { sub.with_cors_config(pat, cors_preset(cors)) } else { sub }
}

fn build_sub(spec: &str) -> Option<SubApp<()>> {
    let p: Vec<&str> = spec.split('/').collect();
    if p.len() != 3 { return None; }
    let mut sub: SubApp<()> = SubApp::new();
    sub.host = String::from_utf8(unhex(p[0])).ok()?;
    if p[1] != "-" {
        for r in p[1].split(',') {
            let q: Vec<&str> = r.split(':').collect();
            sub = add_route(sub, &String::from_utf8(unhex(q[0])).ok()?, q[1], q[2]);
        }
    }
    if p[2] != "-" {
        for r in p[2].split(',') {
            let q: Vec<&str> = r.split(':').collect();
            // the handler names itself on the raw stream (the client sees which WebSocket route was chosen) and closes
            let id = q[1].to_string();
            sub = sub.with_websocket_route(&String::from_utf8(unhex(q[0])).ok()?, move |_req: Request, mut s: Stream, _: Arc<()>| {
                let id = id.clone();
                async move {
                    let _ = tokio::io::AsyncWriteExt::write_all(&mut s, format!("WS:{}", id).as_bytes()).await;
                    let _ = tokio::io::AsyncWriteExt::shutdown(&mut s).await;
                }
            });
        }
    }
    Some(sub)
}

fn add_default(mut app: App<()>, spec: &str) -> Option<App<()>> {
    let p: Vec<&str> = spec.split('/').collect();
    if p.len() != 3 { return None; }
    if p[1] != "-" {
        for r in p[1].split(',') {
            let q: Vec<&str> = r.split(':').collect();
            let pat = String::from_utf8(unhex(q[0])).ok()?;
            let k = q[1].to_string();
            app = app.with_route(&pat, move |req: Request, _: Arc<()>| {
                let k = k.clone();
                async move {
                    if let Some(id) = k.strip_prefix('i') {
                        Response::new(StatusCode::OK, format!("id={}", id))
                    } else if k == "e" {
                        Response::new(StatusCode::OK, req.content.clone().unwrap_or_default())
                    } else if k == "m" {
                        Response::empty(StatusCode::OK)
                    } else if let Some(code) = k.strip_prefix('z') {
            // a handler may answer a status that usually has no content WITH content: it is framed like any other response
            let status = match code { "204" => StatusCode::NoContent, "304" => StatusCode::NotModified, "100" => StatusCode::Continue, _ => StatusCode::OK };
            Response::new(status, format!("z{}", code))
        } else if let Some(which) = k.strip_prefix('h') {
                        let mut r = Response::new(StatusCode::OK, format!("h{}", which));
                        if which.contains('o') { r = r.with_header(HeaderType::AccessControlAllowOrigin, "https://h.example"); }
                        if which.contains('m') { r = r.with_header(HeaderType::AccessControlAllowMethods, "PATCH"); }
                        if which.contains('h') { r = r.with_header(HeaderType::AccessControlAllowHeaders, "X-H"); }
                        if which.contains('x') { r = r.with_header("X-Custom", "1").with_header(HeaderType::Server, "mine"); }
                        r
                    } else {
                        std::panic::resume_unwind(Box::new("handler panic"))
                    }
                }
            });
            if q[2] != "0" { app = app.with_cors_config(&pat, cors_preset(q[2])); }
        }
    }
    if p[2] != "-" {
        for r in p[2].split(',') {
            let q: Vec<&str> = r.split(':').collect();
            let id = q[1].to_string();
            app = app.with_websocket_route(&String::from_utf8(unhex(q[0])).ok()?, move |_req: Request, mut s: Stream, _: Arc<()>| {
                let id = id.clone();
                async move {
                    let _ = tokio::io::AsyncWriteExt::write_all(&mut s, format!("WS:{}", id).as_bytes()).await;
                    let _ = tokio::io::AsyncWriteExt::shutdown(&mut s).await;
                }
            });
        }
    }
    Some(app)
}

/// `start`: when the exchange began (Unix seconds). A date is accepted from 5 s before that to 5 s after now: a long
/// session legitimately spans several seconds.
fn check_date(v: &[u8], start: i64) -> bool {
    let s = match std::str::from_utf8(v) { Ok(s) => s, Err(_) => return false };
    if s.len() != 29 || !s.ends_with(" GMT") { return false; }
    const DAYS: [&str; 7] = ["Sun", "Mon", "Tue", "Wed", "Thu", "Fri", "Sat"];
    const MONTHS: [&str; 12] = ["Jan", "Feb", "Mar", "Apr", "May", "Jun", "Jul", "Aug", "Sep", "Oct", "Nov", "Dec"];
    if !DAYS.contains(&&s[0..3]) || &s[3..5] != ", " { return false; }
    let day: i64 = match s[5..7].parse() { Ok(x) => x, Err(_) => return false };
    let mon = match MONTHS.iter().position(|m| *m == &s[8..11]) { Some(m) => m as i64 + 1, None => return false };
    let year: i64 = match s[12..16].parse() { Ok(x) => x, Err(_) => return false };
    let (h, mi, se): (i64, i64, i64) = match (s[17..19].parse(), s[20..22].parse(), s[23..25].parse()) { (Ok(a), Ok(b), Ok(c)) => (a, b, c), _ => return false };
    let y = if mon <= 2 { year - 1 } else { year };
    let era = if y >= 0 { y } else { y - 399 } / 400;
    let yoe = y - era * 400;
    let mp = (mon + 9) % 12;
    let doy = (153 * mp + 2) / 5 + day - 1;
    let doe = yoe * 365 + yoe / 4 - yoe / 100 + doy;
    let days = era * 146097 + doe - 719468;
    let ts = days * 86400 + h * 3600 + mi * 60 + se;
    let now = std::time::SystemTime::now().duration_since(std::time::UNIX_EPOCH).unwrap().as_secs() as i64;
    ts >= start.min(now) - 5 && ts <= now + 5 && DAYS[((days + 4).rem_euclid(7)) as usize] == &s[0..3]
}

/// Every `Date: …` header line value → `D` (or `BAD-DATE`).
fn normalise_dates(w: &[u8], start_time: i64) -> Vec<u8> {
    let key = b"\r\nDate: ";
    let mut out = Vec::with_capacity(w.len());
    let mut i = 0;
    while i < w.len() {
        if w[i..].starts_with(key) {
            let start = i + key.len();
            if let Some(len) = w[start..].windows(2).position(|x| x == b"\r\n") {
                out.extend_from_slice(key);
                out.extend(if check_date(&w[start..start + len], start_time) { &b"D"[..] } else { &b"BAD-DATE"[..] });
                i = start + len;
                continue;
            }
        }
        out.push(w[i]);
        i += 1;
    }
    out
}

/// The event script of `harness/src/c01.rs::expand_events`, as the segments a client writes (pauses are not used here).
fn expand_events(s: &str) -> Vec<Vec<u8>> {
    let mut chunks: Vec<Vec<u8>> = Vec::new();
    if s == "-" { return chunks; }
    for e in s.split(',') {
        if let Some(h) = e.strip_prefix('d') {
            match h.split_once('*') {
                None => chunks.push(unhexz(h)),
                Some((h, n)) => { let b = unhexz(h); for _ in 0..n.parse::<usize>().unwrap_or(0).min(1_000_000) { chunks.push(b.clone()); } }
            }
        } else if let Some(h) = e.strip_prefix('b') {
            for x in unhexz(h) { chunks.push(vec![x]); }
        } else if let Some(r) = e.strip_prefix('s') {
            if let Some((n, h)) = r.split_once(':') {
                let n: usize = n.parse().unwrap_or(0);
                let b = unhexz(h);
                if n == 0 { chunks.push(b); } else { for c in b.chunks(n) { chunks.push(c.to_vec()); } }
            }
        }
    }
    chunks
}

/// Write the segments, reading at the same time (a long session's responses must not pile up in the socket buffers while
/// the client is still writing: the server would stop reading and both ends would wait for each other).
/// Phase 1: until everything is written and the server has been silent for `window` — what arrives is `before`.
/// Phase 2: the client closes its sending direction, so the server meets end of stream after the last request and closes;
/// what arrives now is `after`, up to end of stream (or 60 s of silence: a server that neither answers nor closes).
fn attempt(port: u16, chunks: &[Vec<u8>], window: Duration) -> (Vec<u8>, Vec<u8>) {
    let s = match TcpStream::connect(("127.0.0.1", port)) { Ok(s) => s, Err(_) => return (b"CONNECT-FAILED".to_vec(), Vec::new()) };
    s.set_nodelay(true).ok();
    let mut rd = match s.try_clone() { Ok(r) => r, Err(_) => return (b"CONNECT-FAILED".to_vec(), Vec::new()) };
    rd.set_read_timeout(Some(Duration::from_millis(50))).ok();
    let done = std::sync::Mutex::new(None::<std::time::Instant>);
    std::thread::scope(|sc| {
        sc.spawn(|| {
            let mut s = &s;
            // many small segments: pause after each so that they travel separately, but do not let thousands of pauses add up
            let pause = if chunks.len() > 2000 { 0 } else if chunks.len() > 400 { 1 } else { 2 };
            for c in chunks {
                if s.write_all(c).is_err() { break; }
                if pause > 0 { std::thread::sleep(Duration::from_millis(pause)); } else { std::thread::yield_now(); }
            }
            *done.lock().unwrap() = Some(std::time::Instant::now());
        });
        let (mut before, mut after) = (Vec::new(), Vec::new());
        let mut buf = vec![0u8; 65536];
        let mut last = std::time::Instant::now();
        let mut closed = false;
        loop {
            match rd.read(&mut buf) {
                Ok(0) => break,
                Ok(n) => { if closed { after.extend_from_slice(&buf[..n]); } else { before.extend_from_slice(&buf[..n]); } last = std::time::Instant::now(); }
                Err(e) if matches!(e.kind(), std::io::ErrorKind::WouldBlock | std::io::ErrorKind::TimedOut | std::io::ErrorKind::Interrupted) => {
                    if let Some(t) = *done.lock().unwrap() {
                        if !closed && t.elapsed() >= window && last.elapsed() >= window {
                            let _ = s.shutdown(std::net::Shutdown::Write);
                            closed = true;
                            last = std::time::Instant::now();
                        } else if closed && last.elapsed() >= Duration::from_secs(60) {
                            break;
                        }
                    }
                }
                Err(_) => break,
            }
        }
        (before, after)
    })
}

/// What the server sent while the connection was open in both directions. A response that arrives only after the client
/// has closed its sending direction is either late (a loaded machine can delay a response by more than any reasonable
/// silence limit) or was waiting for that close (a server that wants more input before it answers a complete request): the
/// exchange is repeated with a longer silence limit, and what is still missing before the close on the last attempt counts
/// as not sent. On an idle machine every exchange ends in the first attempt, 300 ms after the last byte.
fn exchange(port: u16, chunks: &[Vec<u8>]) -> Vec<u8> {
    let mut before = Vec::new();
    for window in [300u64, 2000, 8000] {
        let (b, after) = attempt(port, chunks, Duration::from_millis(window));
        before = b;
        if after.is_empty() { break; }
    }
    before
}

pub fn run(input: &str, output: &str) {
    let rt = tokio::runtime::Builder::new_multi_thread().worker_threads(4).enable_all().build().unwrap();
    let text = std::fs::read_to_string(input).unwrap_or_default();
    let lines: Vec<Vec<String>> = text.lines().map(|l| l.split('\t').map(|x| x.to_string()).collect()).collect();
    // one server per distinct application
    let mut ports: BTreeMap<String, u16> = BTreeMap::new();
    let token = CancellationToken::new();
    for f in &lines {
        if f.len() < 6 || ports.contains_key(&f[1]) { continue; }
        let subs: Vec<&str> = f[1].split('|').collect();
        let mut built: Vec<SubApp<()>> = Vec::new();
        for s in &subs { if let Some(b) = build_sub(s) { built.push(b); } }
        if built.len() != subs.len() { continue; }
        let _ = built.pop();
        let port = { let l = TcpListener::bind("127.0.0.1:0").unwrap(); l.local_addr().unwrap().port() };
        let mut app: App<()> = match add_default(App::new_with_config(()).with_shutdown(token.clone()), subs[subs.len() - 1]) { Some(a) => a, None => continue };
        for b in built { let h = b.host.clone(); app = app.with_host(&h, b); }
        rt.spawn(async move { let _ = app.run(("127.0.0.1", port)).await; });
        for _ in 0..200 { if TcpStream::connect(("127.0.0.1", port)).is_ok() { break; } std::thread::sleep(Duration::from_millis(5)); }
        ports.insert(f[1].clone(), port);
    }
    // the cases are dealt round-robin to the client threads (the expensive ones sit next to each other in the input)
    let one = |f: &Vec<String>| -> String {
        if f.len() < 6 { return "UNSUPPORTED".to_string(); }
        let port = match ports.get(&f[1]) { Some(p) => *p, None => return "UNSUPPORTED".to_string() };
        let chunks: Vec<Vec<u8>> = expand_events(&f[3]);
        let start = std::time::SystemTime::now().duration_since(std::time::UNIX_EPOCH).unwrap().as_secs() as i64;
        let got = exchange(port, &chunks);
        let n = normalise_dates(&got, start);
        // long byte streams (long sessions, large echoed bodies) are compared by length and FNV-1a hash
        format!("W[{}]", if n.is_empty() { "~".to_string() } else if n.len() > 8192 { format!("#{}:{:016x}", n.len(), fnv(&n)) } else { hex(&n) })
    };
    let results: Vec<String> = std::thread::scope(|sc| {
        let nthreads = 12;
        let (lines, one) = (&lines, &one);
        let hs: Vec<_> = (0..nthreads).map(|t| {
            sc.spawn(move || lines.iter().enumerate().filter(|(i, _)| i % nthreads == t).map(|(i, f)| (i, one(f))).collect::<Vec<_>>())
        }).collect();
        let mut all: Vec<(usize, String)> = hs.into_iter().flat_map(|h| h.join().unwrap()).collect();
        all.sort_by_key(|(i, _)| *i);
        all.into_iter().map(|(_, r)| r).collect()
    });
    token.cancel();
    std::fs::write(output, results.join("\n") + "\n").unwrap();
    std::process::exit(0); // handler panics may leave runtime tasks behind
}
