//! C01/C04 on the tokio runtime: the real `App::run` (tokio) on a loopback port, one TCP connection per case.
//! `hvt __c01 <cases-in> <out>`: for every `conn…` line writes `W[<hex of everything the server sent, Date normalised>]`.
//! Only what a client can see is compared (the model's answer does not depend on segmentation — proved — so the
//! kernel's coalescing of our writes is harmless).
use crate::common::*;
use humphrey::http::cors::Cors;
use humphrey::http::method::Method;
use humphrey::http::{Request, Response, StatusCode};
use humphrey::stream::Stream;
use humphrey::{App, SubApp};
use std::collections::BTreeMap;
use std::io::{Read, Write};
use std::net::{TcpListener, TcpStream};
use std::sync::Arc;
use std::time::Duration;
use tokio_util::sync::CancellationToken;

fn cors_preset(n: &str) -> Cors {
    match n {
        "1" => Cors::wildcard(),
        "2" => Cors::new().with_origin("a.com").with_origin("b.com").with_method(Method::Get).with_method(Method::Post)
            .with_header("X-A").with_header("Content-Type"),
        "3" => Cors::new().with_wildcard_origin().with_wildcard_methods(),
        _ => Cors::new(),
    }
}

fn add_route(sub: SubApp<()>, pat: &str, kind: &str, cors: &str) -> SubApp<()> {
    let k = kind.to_string();
    let sub = sub.with_route(pat, move |req: Request, _: Arc<()>| {
        let k = k.clone();
        async move {
            if let Some(id) = k.strip_prefix('i') {
                Response::new(StatusCode::OK, format!("id={}", id))
            } else if k == "e" {
                Response::new(StatusCode::OK, req.content.clone().unwrap_or_default())
            } else if k == "m" {
                Response::empty(StatusCode::OK)
            } else {
                std::panic::resume_unwind(Box::new("handler panic"))
            }
        }
    });
    if cors != "0" { sub.with_cors_config(pat, cors_preset(cors)) } else { sub }
}

fn build_sub(spec: &str) -> Option<SubApp<()>> {
    let p: Vec<&str> = spec.split('/').collect();
    if p.len() != 3 { return None; }
    let mut sub: SubApp<()> = SubApp::new();
    sub.host = String::from_utf8(unhex(p[0])).ok()?;
    if p[1] != "-" {
        for r in p[1].split(',') {
            let q: Vec<&str> = r.split(':').collect();
            sub = add_route(sub, &String::from_utf8(unhex(q[0])).ok()?, q[1], q[2]);
        }
    }
    if p[2] != "-" {
        for r in p[2].split(',') {
            let q: Vec<&str> = r.split(':').collect();
            sub = sub.with_websocket_route(&String::from_utf8(unhex(q[0])).ok()?, |_req: Request, _s: Stream, _: Arc<()>| async {});
        }
    }
    Some(sub)
}

fn add_default(mut app: App<()>, spec: &str) -> Option<App<()>> {
    let p: Vec<&str> = spec.split('/').collect();
    if p.len() != 3 { return None; }
    if p[1] != "-" {
        for r in p[1].split(',') {
            let q: Vec<&str> = r.split(':').collect();
            let pat = String::from_utf8(unhex(q[0])).ok()?;
            let k = q[1].to_string();
            app = app.with_route(&pat, move |req: Request, _: Arc<()>| {
                let k = k.clone();
                async move {
                    if let Some(id) = k.strip_prefix('i') {
                        Response::new(StatusCode::OK, format!("id={}", id))
                    } else if k == "e" {
                        Response::new(StatusCode::OK, req.content.clone().unwrap_or_default())
                    } else if k == "m" {
                        Response::empty(StatusCode::OK)
                    } else {
                        std::panic::resume_unwind(Box::new("handler panic"))
                    }
                }
            });
            if q[2] != "0" { app = app.with_cors_config(&pat, cors_preset(q[2])); }
        }
    }
    if p[2] != "-" {
        for r in p[2].split(',') {
            let q: Vec<&str> = r.split(':').collect();
            app = app.with_websocket_route(&String::from_utf8(unhex(q[0])).ok()?, |_req: Request, _s: Stream, _: Arc<()>| async {});
        }
    }
    Some(app)
}

fn check_date(v: &[u8]) -> bool {
    let s = match std::str::from_utf8(v) { Ok(s) => s, Err(_) => return false };
    if s.len() != 29 || !s.ends_with(" GMT") { return false; }
    const DAYS: [&str; 7] = ["Sun", "Mon", "Tue", "Wed", "Thu", "Fri", "Sat"];
    const MONTHS: [&str; 12] = ["Jan", "Feb", "Mar", "Apr", "May", "Jun", "Jul", "Aug", "Sep", "Oct", "Nov", "Dec"];
    if !DAYS.contains(&&s[0..3]) || &s[3..5] != ", " { return false; }
    let day: i64 = match s[5..7].parse() { Ok(x) => x, Err(_) => return false };
    let mon = match MONTHS.iter().position(|m| *m == &s[8..11]) { Some(m) => m as i64 + 1, None => return false };
    let year: i64 = match s[12..16].parse() { Ok(x) => x, Err(_) => return false };
    let (h, mi, se): (i64, i64, i64) = match (s[17..19].parse(), s[20..22].parse(), s[23..25].parse()) { (Ok(a), Ok(b), Ok(c)) => (a, b, c), _ => return false };
    let y = if mon <= 2 { year - 1 } else { year };
    let era = if y >= 0 { y } else { y - 399 } / 400;
    let yoe = y - era * 400;
    let mp = (mon + 9) % 12;
    let doy = (153 * mp + 2) / 5 + day - 1;
    let doe = yoe * 365 + yoe / 4 - yoe / 100 + doy;
    let days = era * 146097 + doe - 719468;
    let ts = days * 86400 + h * 3600 + mi * 60 + se;
    let now = std::time::SystemTime::now().duration_since(std::time::UNIX_EPOCH).unwrap().as_secs() as i64;
    (ts - now).abs() <= 10 && DAYS[((days + 4).rem_euclid(7)) as usize] == &s[0..3]
}

/// Every `Date: …` header line value → `D` (or `BAD-DATE`).
fn normalise_dates(w: &[u8]) -> Vec<u8> {
    let key = b"\r\nDate: ";
    let mut out = Vec::with_capacity(w.len());
    let mut i = 0;
    while i < w.len() {
        if w[i..].starts_with(key) {
            let start = i + key.len();
            if let Some(len) = w[start..].windows(2).position(|x| x == b"\r\n") {
                out.extend_from_slice(key);
                out.extend(if check_date(&w[start..start + len]) { &b"D"[..] } else { &b"BAD-DATE"[..] });
                i = start + len;
                continue;
            }
        }
        out.push(w[i]);
        i += 1;
    }
    out
}

fn exchange(port: u16, chunks: &[Vec<u8>]) -> Vec<u8> {
    let mut s = match TcpStream::connect(("127.0.0.1", port)) { Ok(s) => s, Err(_) => return b"CONNECT-FAILED".to_vec() };
    s.set_nodelay(true).ok();
    for c in chunks {
        if s.write_all(c).is_err() { break; }
        std::thread::sleep(Duration::from_millis(2));
    }
    s.set_read_timeout(Some(Duration::from_millis(300))).ok();
    let mut got = Vec::new();
    let mut buf = [0u8; 65536];
    loop {
        match s.read(&mut buf) {
            Ok(0) => break,
            Ok(n) => got.extend_from_slice(&buf[..n]),
            Err(_) => break, // silence: the server keeps the connection open
        }
    }
    got
}

pub fn run(input: &str, output: &str) {
    let rt = tokio::runtime::Builder::new_multi_thread().worker_threads(4).enable_all().build().unwrap();
    let text = std::fs::read_to_string(input).unwrap_or_default();
    let lines: Vec<Vec<String>> = text.lines().map(|l| l.split('\t').map(|x| x.to_string()).collect()).collect();
    // one server per distinct application
    let mut ports: BTreeMap<String, u16> = BTreeMap::new();
    let token = CancellationToken::new();
    for f in &lines {
        if f.len() < 6 || ports.contains_key(&f[1]) { continue; }
        let subs: Vec<&str> = f[1].split('|').collect();
        let mut built: Vec<SubApp<()>> = Vec::new();
        for s in &subs { if let Some(b) = build_sub(s) { built.push(b); } }
        if built.len() != subs.len() { continue; }
        let _ = built.pop();
        let port = { let l = TcpListener::bind("127.0.0.1:0").unwrap(); l.local_addr().unwrap().port() };
        let mut app: App<()> = match add_default(App::new_with_config(()).with_shutdown(token.clone()), subs[subs.len() - 1]) { Some(a) => a, None => continue };
        for b in built { let h = b.host.clone(); app = app.with_host(&h, b); }
        rt.spawn(async move { let _ = app.run(("127.0.0.1", port)).await; });
        for _ in 0..200 { if TcpStream::connect(("127.0.0.1", port)).is_ok() { break; } std::thread::sleep(Duration::from_millis(5)); }
        ports.insert(f[1].clone(), port);
    }
    let results: Vec<String> = std::thread::scope(|sc| {
        let nthreads = 12;
        let chunk = (lines.len() + nthreads - 1) / nthreads;
        let hs: Vec<_> = lines.chunks(chunk.max(1)).map(|part| {
            let ports = &ports;
            sc.spawn(move || part.iter().map(|f| {
                if f.len() < 6 { return "UNSUPPORTED".to_string(); }
                let port = match ports.get(&f[1]) { Some(p) => *p, None => return "UNSUPPORTED".to_string() };
                let chunks: Vec<Vec<u8>> = if f[3] == "-" { vec![] } else { f[3].split(',').filter_map(|e| e.strip_prefix('d').map(unhex)).collect() };
                let got = exchange(port, &chunks);
                let n = normalise_dates(&got);
                format!("W[{}]", if n.is_empty() { "~".to_string() } else { hex(&n) })
            }).collect::<Vec<_>>())
        }).collect();
        hs.into_iter().flat_map(|h| h.join().unwrap()).collect()
    });
    token.cancel();
    std::fs::write(output, results.join("\n") + "\n").unwrap();
    std::process::exit(0); // handler panics may leave runtime tasks behind
}
