//! C20, tokio runtime: the REAL `humphrey::tokio::App::run` with a `CancellationToken`, on a multi-thread
//! runtime that stays alive after `run` has returned (spawned connection tasks belong to the runtime, not to
//! `run`). Scenario engine and output format: `harness/src/c20_scn.rs`.
use crate::c20_scn::*;
use humphrey::http::{Request, Response, StatusCode};
use humphrey::stream::Stream;
use humphrey::thread::verif::{install_app_sink, AppEvent};
use humphrey::App;
use std::sync::atomic::Ordering;
use std::sync::mpsc::Sender;
use std::sync::Arc;
use std::time::Duration;
use tokio::io::{AsyncReadExt, AsyncWriteExt};
use tokio::net::TcpStream;
use tokio_util::sync::CancellationToken;

fn app_tok(ev: AppEvent) -> String {
    use AppEvent::*;
    match ev {
        AcceptReturned(Some(p)) => format!("@A{}", p),
        AcceptReturned(None) => "@A?".into(),
        AcceptFailed => "@AE".into(),
        FlagChecked(v) => format!("@F{}", v as u8),
        Condition(v) => format!("@C{}", v as u8),
        Executed => "@E".into(),
        LoopExit => "@L".into(),
        PoolStopped => "@P".into(),
        AppDropped => "@D".into(),
        SignalReceived => "@R".into(),
        FlagStoreBegin => "@B".into(),
        FlagStored => "@S".into(),
        SelfConnectBegin => "@W".into(),
        SelfConnectDone => "@w".into(),
        JoinDone => "@J".into(),
    }
}

fn condition(_: &mut TcpStream, _: Arc<()>) -> bool {
    !deny_now()
}

async fn ok(_: Request) -> Response {
    Response::new(StatusCode::OK, "ok")
}
async fn short(_: Request) -> Response {
    tokio::time::sleep(Duration::from_millis(SHORT_MS)).await;
    Response::new(StatusCode::OK, "short")
}
async fn long(_: Request) -> Response {
    tokio::time::sleep(Duration::from_millis(LONG_MS)).await;
    Response::new(StatusCode::OK, "long")
}
async fn big(_: Request) -> Response {
    Response::new(StatusCode::OK, vec![b'x'; BIG])
}
/// Pipelined connections: runs until the harness opens the gate (after `run` has returned).
async fn gate(_: Request) -> Response {
    let t0 = std::time::Instant::now();
    while !gate_open() && t0.elapsed() < GATE_MAX {
        tokio::time::sleep(Duration::from_millis(1)).await;
    }
    Response::new(StatusCode::OK, "gate")
}
async fn echo(r: Request) -> Response {
    Response::new(StatusCode::OK, r.uri)
}
async fn echo_short(r: Request) -> Response {
    tokio::time::sleep(Duration::from_millis(SHORT_MS)).await;
    Response::new(StatusCode::OK, r.uri)
}
/// "WebSocket open": answer the upgrade and keep the connection until the peer closes it.
async fn ws(_: Request, mut stream: Stream, _: Arc<()>) {
    let _ = stream
        .write_all(b"HTTP/1.1 101 Switching Protocols\r\nUpgrade: websocket\r\nConnection: Upgrade\r\n\r\n")
        .await;
    let mut b = [0u8; 256];
    while let Ok(n) = stream.read(&mut b).await {
        if n == 0 {
            break;
        }
    }
}

fn launch(scn: &Scn, addr: String, done: Sender<()>) -> Box<dyn FnOnce() + Send> {
    install_app_sink(Box::new(|ev| {
        record(app_tok(ev));
        if matches!(ev, AppEvent::Executed | AppEvent::Condition(false)) {
            HANDLED.fetch_add(1, Ordering::SeqCst);
        }
        0
    }));
    let cancel = CancellationToken::new();
    let token = cancel.clone();
    let threads = scn.threads;
    std::thread::Builder::new()
        .name("rt".into())
        .spawn(move || {
            let rt = tokio::runtime::Builder::new_multi_thread().worker_threads(threads).enable_all().build().expect("runtime");
            rt.block_on(async move {
                let app: App<()> = App::new_with_config(())
                    .with_shutdown(token)
                    .with_connection_condition(condition)
                    .with_stateless_route("/ok", ok)
                    .with_stateless_route("/short", short)
                    .with_stateless_route("/long", long)
                    .with_stateless_route("/big", big)
                    .with_stateless_route("/gate", gate)
                    .with_stateless_route("/n/*", echo)
                    .with_stateless_route("/ns/*", echo_short)
                    .with_websocket_route("/ws", ws);
                let _ = app.run(addr).await;
                mark_done();
            let _ = done.send(());
                // `run` is back; the tasks it spawned live as long as the runtime does
                tokio::time::sleep(Duration::from_millis(8000)).await;
            });
        })
        .expect("spawn rt");
    Box::new(move || cancel.cancel())
}

pub fn child() {
    crate::c20_scn::child(launch);
}
