//! C06 on the tokio runtime: the async twins `humphrey::handlers::{serve_dir, serve_as_file_path}`.
//! `hvt __c06serve` is a co-process of `hv C06`: it reads one request per line on stdin
//! (`handler<TAB>hex(directory)<TAB>hex(route)<TAB>hex(uri)`; the directory tree already exists on disk, built by `hv`)
//! and answers one observation line per request, in the format of `c06.rs::observe`.
use crate::common::*;
use humphrey::handler_traits::{PathAwareRequestHandler, RequestHandler};
use humphrey::handlers::{serve_as_file_path, serve_dir};
use humphrey::http::address::Address;
use humphrey::http::headers::{HeaderType, Headers};
use humphrey::http::method::Method;
use humphrey::http::{Request, Response};
use std::io::{BufRead, Write};
use std::sync::Arc;

fn request(uri: &str) -> Request {
    Request {
        method: Method::Get,
        uri: uri.to_string(),
        query: String::new(),
        version: "HTTP/1.1".into(),
        headers: Headers::new(),
        content: None,
        address: Address::new("127.0.0.1:1234").unwrap(),
    }
}

fn fnv(b: &[u8]) -> u32 {
    let mut h: u32 = 2166136261;
    for x in b {
        h = (h ^ (*x as u32)).wrapping_mul(16777619);
    }
    h
}

fn observe(r: Result<Response, ()>) -> String {
    match r {
        Err(_) => "PANIC".into(),
        Ok(resp) => {
            let code: u16 = resp.status_code.into();
            let canary = resp.body.windows(6).any(|w| w == b"CANARY") as u8;
            let opt = |h: Option<&str>| match h {
                None => "-".to_string(),
                Some("") => "e".to_string(),
                Some(s) => hex(s.as_bytes()),
            };
            match code {
                200 => format!("200|{}|{}|{}|{}", opt(resp.headers.get(HeaderType::ContentType)), resp.body.len(),
                               fnv(&resp.body), canary),
                301 => format!("301|{}|{}", hex(resp.headers.get(HeaderType::Location).unwrap_or("").as_bytes()), canary),
                c => format!("{}|{}", c, canary),
            }
        }
    }
}

fn text(h: &str) -> String {
    String::from_utf8_lossy(&unhex(h)).into_owned()
}

pub fn serve() {
    let rt = tokio::runtime::Builder::new_current_thread().enable_all().build().unwrap();
    let stdin = std::io::stdin();
    let stdout = std::io::stdout();
    let mut out = stdout.lock();
    for line in stdin.lock().lines() {
        let line = match line { Ok(l) => l, Err(_) => break };
        let f: Vec<&str> = line.split('\t').collect();
        if f.len() != 4 {
            let _ = writeln!(out, "BADLINE");
            let _ = out.flush();
            continue;
        }
        let dir: &'static str = Box::leak(text(f[1]).into_boxed_str());
        let route: &'static str = Box::leak(text(f[2]).into_boxed_str());
        let uri = text(f[3]);
        let handler = f[0].to_string();
        // a panic inside the handler's future is an observation, not the end of the co-process
        let res = std::panic::catch_unwind(std::panic::AssertUnwindSafe(|| {
            rt.block_on(async {
                match handler.as_str() {
                    "serve_dir" => {
                        let h = serve_dir::<()>(dir);
                        Some(PathAwareRequestHandler::serve(&h, request(&uri), Arc::new(()), route).await)
                    }
                    "serve_as_file_path" => {
                        let h = serve_as_file_path::<()>(dir);
                        Some(RequestHandler::serve(&h, request(&uri), Arc::new(())).await)
                    }
                    _ => None,
                }
            })
        }));
        let o = match res {
            Ok(Some(r)) => observe(Ok(r)),
            Ok(None) => "UNSUPPORTED".into(),
            Err(_) => observe(Err(())),
        };
        let _ = writeln!(out, "{}", o);
        let _ = out.flush();
    }
}
