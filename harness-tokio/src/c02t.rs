//! C02 on the tokio runtime: `Request::from_stream` (async twin) over a scripted AsyncRead.
//! `hvt __c02 <cases-in> <out>`: for every `req_parse…` line of <cases-in> writes the tokio parser's `P1 | SER | P2`.
use crate::common::*;
use humphrey::http::Request;
use std::collections::{BTreeSet, VecDeque};
use std::net::SocketAddr;
use std::pin::Pin;
use std::task::{Context, Poll};
use tokio::io::{AsyncRead, ReadBuf};

struct AsyncChunked {
    chunks: VecDeque<Vec<u8>>,
}

impl AsyncRead for AsyncChunked {
    fn poll_read(mut self: Pin<&mut Self>, _cx: &mut Context<'_>, buf: &mut ReadBuf<'_>) -> Poll<std::io::Result<()>> {
        if buf.remaining() == 0 {
            return Poll::Ready(Ok(()));
        }
        match self.chunks.pop_front() {
            None => Poll::Ready(Ok(())),
            Some(mut c) => {
                if c.len() > buf.remaining() {
                    let rest = c.split_off(buf.remaining());
                    self.chunks.push_front(rest);
                }
                buf.put_slice(&c);
                Poll::Ready(Ok(()))
            }
        }
    }
}

fn hx(b: &[u8]) -> String { if b.is_empty() { "~".into() } else { hex(b) } }
pub fn fnv(b: &[u8]) -> u64 { let mut h: u64 = 0xcbf29ce484222325; for x in b { h ^= *x as u64; h = h.wrapping_mul(0x100000001b3); } h }
fn hxl(b: &[u8]) -> String { if b.len() > 64 { format!("#{}:{:016x}", b.len(), fnv(b)) } else { hx(b) } }

/// Pattern bytes and the compact `hexz` form: copies of `harness/src/c02.rs::{pat_byte, unhexz}`.
pub fn pat_byte(seed: u32, i: usize) -> u8 {
    let x = (i as u32).wrapping_mul(2654435761).wrapping_add(seed);
    ((x >> 24) ^ (x >> 11)) as u8
}

pub fn unhexz(s: &str) -> Vec<u8> {
    const LIMIT: usize = 64 * 1024 * 1024;
    if !s.bytes().any(|c| c == b'_' || c == b'Z' || c == b'Y') { return unhex(s); }
    let mut out = Vec::new();
    for seg in s.split('_') {
        if let Some(r) = seg.strip_prefix('Z') {
            if let Some((l, sd)) = r.split_once('.') {
                if let (Ok(l), Ok(sd)) = (l.parse::<usize>(), sd.parse::<u64>()) {
                    if l <= LIMIT { out.extend((0..l).map(|i| pat_byte(sd as u32, i))); }
                }
            }
        } else if let Some(r) = seg.strip_prefix('Y') {
            if let Some((c, h)) = r.split_once('.') {
                if let Ok(c) = c.parse::<usize>() {
                    let b = unhex(h);
                    if c.saturating_mul(b.len()) <= LIMIT { for _ in 0..c { out.extend_from_slice(&b); } }
                }
            }
        } else {
            out.extend(unhex(seg));
        }
    }
    out
}

fn canon_request(req: &Request) -> String {
    let mut names: BTreeSet<Vec<u8>> = BTreeSet::new();
    for h in req.headers.iter() { names.insert(h.name.to_string().to_ascii_lowercase().into_bytes()); }
    let hs: Vec<String> = names.iter().map(|n| {
        let name = String::from_utf8_lossy(n).to_string();
        let vals: Vec<String> = req.headers.get_all(name.as_str()).iter().map(|v| hx(v.as_bytes())).collect();
        format!("{}={}", hx(n), vals.join(";"))
    }).collect();
    let mut cookies: Vec<String> =
        req.get_cookies().iter().map(|c| format!("{}={}", hx(c.name.as_bytes()), hx(c.value.as_bytes()))).collect();
    // the single-cookie lookup must agree with the list: the first cookie of that name, nothing for a name that is not there
    {
        let list = req.get_cookies();
        let mut seen: Vec<&str> = Vec::new();
        for c in &list {
            if seen.contains(&c.name.as_str()) { continue; }
            seen.push(c.name.as_str());
            match req.get_cookie(c.name.as_str()) {
                Some(g) if g.value == c.value => {}
                other => cookies.push(format!("LOOKUP-MISMATCH:{}:{}", hx(c.name.as_bytes()), match other { Some(g) => hx(g.value.as_bytes()), None => "none".into() })),
            }
        }
        if !seen.contains(&"no-such-cookie") && req.get_cookie("no-such-cookie").is_some() {
            cookies.push("LOOKUP-MISMATCH:absent-name-found".into());
        }
    }
    format!("OK {} {} {} {} H[{}] C[{}] A[{}/{}/{}] K[{}]", req.method, hx(req.uri.as_bytes()), hx(req.query.as_bytes()),
        hx(req.version.as_bytes()), hs.join(","),
        match &req.content { Some(c) => hxl(c), None => "-".into() },
        hx(req.address.origin_addr.to_string().as_bytes()),
        req.address.proxies.iter().map(|p| hx(p.to_string().as_bytes())).collect::<Vec<_>>().join(";"),
        req.address.port, cookies.join(";"))
}

fn apply_cuts(bytes: &[u8], spec: &str) -> Vec<Vec<u8>> {
    let mut cuts: Vec<usize> = Vec::new();
    if spec == "1" { cuts = (1..bytes.len()).collect(); }
    else if let Some(n) = spec.strip_prefix('k') { let n: usize = n.parse().unwrap_or(1).max(1); cuts = (1..bytes.len()).filter(|i| i % n == 0).collect(); }
    else if let Some(list) = spec.strip_prefix('c') {
        cuts = list.split('.').filter_map(|x| x.parse().ok()).filter(|i| *i > 0 && *i < bytes.len()).collect();
        cuts.sort(); cuts.dedup();
    }
    let mut res = Vec::new(); let mut prev = 0;
    for c in cuts { res.push(bytes[prev..c].to_vec()); prev = c; }
    res.push(bytes[prev..].to_vec());
    res.into_iter().filter(|c| !c.is_empty()).collect()
}

async fn parse(chunks: Vec<Vec<u8>>, peer: SocketAddr) -> Result<Request, String> {
    let mut r = AsyncChunked { chunks: chunks.into() };
    Request::from_stream(&mut r, peer).await.map_err(|e| format!("ERR:{:?}", e))
}

pub fn run(input: &str, output: &str) {
    let rt = tokio::runtime::Builder::new_current_thread().build().unwrap();
    let text = std::fs::read_to_string(input).unwrap_or_default();
    let mut out = String::new();
    for line in text.lines() {
        let f: Vec<&str> = line.split('\t').collect();
        if f.len() < 4 { out.push_str("UNSUPPORTED\n"); continue; }
        let bytes = unhexz(f[1]);
        let chunks = apply_cuts(&bytes, f[2]);
        let peer = match f[3].split_once('|') { Some((ip, port)) => SocketAddr::new(ip.parse().unwrap(), port.parse().unwrap()), None => { out.push_str("UNSUPPORTED\n"); continue; } };
        let r = std::panic::catch_unwind(std::panic::AssertUnwindSafe(|| rt.block_on(async {
            match parse(chunks, peer).await {
                Err(e) => format!("{} | - | -", e),
                Ok(req) => {
                    let c1 = canon_request(&req);
                    let ser: Vec<u8> = req.clone().into();
                    let p2 = match parse(vec![ser.clone()], peer).await { Err(e) => e, Ok(r2) => canon_request(&r2) };
                    format!("{} | {} | {}", c1, hxl(&ser), p2)
                }
            }
        })));
        out.push_str(&r.unwrap_or_else(|_| "PANIC | - | -".into()));
        out.push('\n');
    }
    std::fs::write(output, out).unwrap();
}
