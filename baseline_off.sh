#!/bin/bash
# Runs /repo's own test suite with the hook guard OFF (no --cfg humphrey_verif) and checks it against the
# pinned baseline: 99 passing tests, the only failure allowed being the network-dependent test_url_parser.
cd /repo || exit 2
out=$(CARGO_NET_OFFLINE=true cargo test --workspace --no-fail-fast --offline 2>&1)
passed=$(echo "$out" | grep -E '^test .* \.\.\. ok$' | wc -l)
failed=$(echo "$out" | grep -E '^test .* \.\.\. FAILED$' | grep -v 'tests::client::test_url_parser' | wc -l)
echo "passed=$passed unexpected_failures=$failed"
echo "$out" | grep -E '^test .* \.\.\. FAILED$'
if [ "$passed" -ge 99 ] && [ "$failed" -eq 0 ]; then exit 0; else echo "$out" | tail -50; exit 1; fi
